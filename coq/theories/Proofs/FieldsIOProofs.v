(* C16 — proofs about the FieldsIO model (Model/FieldsIO.v). *)
From PySDC Require Import Base.Tactics Model.FieldsIO.
Open Scope Z_scope.

(* ------------------------------------------------------------------ lists *)
Lemma blen_app a b : blen (a ++ b) = blen a + blen b.
Proof. unfold blen. rewrite app_length. lia. Qed.

Lemma blen_nonneg a : 0 <= blen a.
Proof. unfold blen. lia. Qed.

Lemma blen_nil : blen [] = 0.
Proof. reflexivity. Qed.

Lemma firstn_app_exact {A} (a b : list A) n : length a = n -> firstn n (a ++ b) = a.
Proof. intros <-. rewrite firstn_app, Nat.sub_diag, firstn_all. simpl. apply app_nil_r. Qed.

Lemma skipn_app_exact {A} (a b : list A) n : length a = n -> skipn n (a ++ b) = b.
Proof. intros <-. rewrite skipn_app, Nat.sub_diag, skipn_all. reflexivity. Qed.

Lemma skipn_skipn' {A} (l : list A) x y : skipn x (skipn y l) = skipn (y + x) l.
Proof.
  revert l. induction y; intros l; [reflexivity|].
  destruct l; [rewrite !skipn_nil; reflexivity|]. simpl. apply IHy.
Qed.

Lemma skipn_add_app {A} (a b : list A) k m : length a = k -> skipn (k + m) (a ++ b) = skipn m b.
Proof. intros H. rewrite <- skipn_skipn', (skipn_app_exact a b k H). reflexivity. Qed.

(* ------------------------------------------------------------------ integer codecs *)
Lemma le_enc_length n x : length (le_enc n x) = n.
Proof. revert x. induction n; intros; simpl; auto. Qed.

Lemma pow256_pos n : 0 < 256 ^ Z.of_nat n.
Proof. apply Z.pow_pos_nonneg; lia. Qed.

Lemma pow256_S n : 256 ^ Z.of_nat (S n) = 256 * 256 ^ Z.of_nat n.
Proof. rewrite Nat2Z.inj_succ, Z.pow_succ_r by lia. reflexivity. Qed.

Lemma le_dec_enc n x : le_dec (le_enc n x) = x mod 256 ^ Z.of_nat n.
Proof.
  revert x. induction n; intros x.
  - simpl. rewrite Z.mod_1_r. reflexivity.
  - cbn [le_enc le_dec]. rewrite IHn, pow256_S.
    pose proof (pow256_pos n).
    rewrite Z.rem_mul_r by lia. reflexivity.
Qed.

Lemma dec_int_enc n x : (0 < n)%nat -> in_range n x -> dec_int (le_enc n x) = x.
Proof.
  intros Hn [Hlo Hhi]. unfold dec_int. rewrite le_enc_length, le_dec_enc.
  unfold wrap_signed. destruct n as [|m]; [lia|].
  rewrite pow256_S in *. pose proof (pow256_pos m).
  set (P := 256 ^ Z.of_nat m) in *. clearbody P.
  replace (256 * P / 2) with (128 * P) in * by lia.
  destruct (Z_lt_le_dec x 0).
  - assert (E : x + 256 * P = x mod (256 * P)) by (apply Z.mod_unique with (q := -1); lia).
    rewrite <- E.
    destruct (Z.ltb_spec (x + 256 * P) (128 * P)); lia.
  - rewrite Z.mod_small by lia.
    destruct (Z.ltb_spec x (128 * P)); lia.
Qed.

Lemma le_enc_1 x : le_enc 1 x = [x mod 256].
Proof. reflexivity. Qed.

Lemma le_enc_4 x : exists a b c d, le_enc 4 x = [a; b; c; d].
Proof. simpl. eauto. Qed.

(* ------------------------------------------------------------------ read_items *)
Lemma read_items_exact k cnt x rest :
  0 < k -> 0 <= cnt -> blen x = cnt * k -> read_items k cnt (x ++ rest) = (x, rest).
Proof.
  intros Hk Hc Hx. unfold read_items.
  assert (Hmin : Z.min (Z.max cnt 0) (blen (x ++ rest) / k) = cnt).
  { rewrite blen_app, Hx. rewrite Z.max_l by lia.
    pose proof (blen_nonneg rest).
    rewrite Z.add_comm, Z.div_add by lia.
    pose proof (Z.div_pos (blen rest) k). lia. }
  rewrite Hmin.
  assert (Hl : length x = Z.to_nat (cnt * k)) by (unfold blen in Hx; lia).
  rewrite (firstn_app_exact x rest _ Hl), (skipn_app_exact x rest _ Hl). reflexivity.
Qed.

(* ------------------------------------------------------------------ records *)
Definition body (recs : list (bytes * bytes)) : bytes := concat (map rec_bytes recs).

Lemma body_cons r recs : body (r :: recs) = rec_bytes r ++ body recs.
Proof. reflexivity. Qed.

Lemma body_app a b : body (a ++ b) = body a ++ body b.
Proof. unfold body. rewrite map_app, concat_app. reflexivity. Qed.

Lemma rec_len fS r : 0 <= fS -> wf_rec fS r -> length (rec_bytes r) = Z.to_nat (tSize + fS).
Proof. unfold wf_rec, rec_bytes, blen, tSize. intros H [H1 H2]. rewrite app_length. lia. Qed.

Lemma body_len fS recs : 0 <= fS -> Forall (wf_rec fS) recs ->
  blen (body recs) = Z.of_nat (length recs) * (tSize + fS).
Proof.
  intros HfS H. induction H.
  - reflexivity.
  - rewrite body_cons, blen_app, IHForall. unfold blen at 1. rewrite (rec_len fS x HfS H).
    cbn [length]. unfold tSize. lia.
Qed.

Lemma skipn_body fS recs tail (i : nat) d : 0 <= fS -> Forall (wf_rec fS) recs -> (i < length recs)%nat ->
  skipn (i * Z.to_nat (tSize + fS)) (body recs ++ tail)
  = rec_bytes (nth i recs d) ++ body (skipn (S i) recs) ++ tail.
Proof.
  intros HfS H. revert i. induction H; intros i Hi; simpl in Hi; [lia|].
  destruct i.
  - simpl. rewrite body_cons, <- app_assoc. reflexivity.
  - rewrite body_cons, <- app_assoc. cbn [Nat.mul].
    rewrite skipn_add_app by (apply rec_len; assumption).
    rewrite IHForall by lia. reflexivity.
Qed.

Definition file_of (hdr : bytes) (recs : list (bytes * bytes)) (tail : bytes) : bytes :=
  hdr ++ body recs ++ tail.

Lemma file_of_len fS hdr recs tail : 0 <= fS -> Forall (wf_rec fS) recs ->
  blen (file_of hdr recs tail) = blen hdr + Z.of_nat (length recs) * (tSize + fS) + blen tail.
Proof. intros. unfold file_of. rewrite !blen_app, (body_len fS) by assumption. lia. Qed.

Lemma nFields_file_of hS fS hdr recs tail :
  0 <= fS -> blen hdr = hS -> Forall (wf_rec fS) recs -> blen tail < tSize + fS ->
  nFieldsL hS (tSize + fS) (file_of hdr recs tail) = Z.of_nat (length recs).
Proof.
  intros HfS Hh Hr Ht. unfold nFieldsL. rewrite (file_of_len fS) by assumption.
  pose proof (blen_nonneg tail). unfold tSize in *.
  replace (blen hdr + Z.of_nat (length recs) * (8 + fS) + blen tail - hS)
    with (blen tail + Z.of_nat (length recs) * (8 + fS)) by lia.
  rewrite Z.div_add by lia. rewrite Z.div_small by lia. lia.
Qed.

(* the bytes from the start of record i on *)
Lemma skipn_file_of hS fS hdr recs tail i d :
  0 <= fS -> blen hdr = hS -> Forall (wf_rec fS) recs -> 0 <= i < Z.of_nat (length recs) ->
  skipn (Z.to_nat (hS + i * (tSize + fS))) (file_of hdr recs tail)
  = rec_bytes (nth (Z.to_nat i) recs d) ++ body (skipn (S (Z.to_nat i)) recs) ++ tail.
Proof.
  intros HfS Hh Hr Hi. unfold file_of.
  assert (E : Z.to_nat (hS + i * (tSize + fS)) = (length hdr + Z.to_nat i * Z.to_nat (tSize + fS))%nat).
  { unfold blen in Hh. unfold tSize. subst hS. nia. }
  rewrite E, skipn_add_app by reflexivity.
  apply (skipn_body fS); [assumption|assumption|lia].
Qed.

Lemma slices_file_of hS fS hdr recs tail i d :
  0 <= fS -> blen hdr = hS -> Forall (wf_rec fS) recs -> 0 <= i < Z.of_nat (length recs) ->
  let off := hS + i * (tSize + fS) in
  let f := file_of hdr recs tail in
  (slice off tSize f, slice (off + tSize) fS f) = nth (Z.to_nat i) recs d.
Proof.
  intros HfS Hh Hr Hi off f.
  assert (Hin : In (nth (Z.to_nat i) recs d) recs) by (apply nth_In; lia).
  pose proof (proj1 (Forall_forall _ _) Hr _ Hin) as [Ht Hp].
  pose proof (blen_nonneg hdr).
  assert (Hoff : 0 <= off) by (unfold off, tSize; nia).
  unfold slice.
  replace (Z.to_nat (off + tSize)) with (Z.to_nat off + Z.to_nat tSize)%nat by (unfold tSize; lia).
  rewrite <- skipn_skipn'.
  unfold off, f. rewrite (skipn_file_of hS fS hdr recs tail i d) by assumption.
  destruct (nth (Z.to_nat i) recs d) as [t p]. unfold rec_bytes in *. cbn [fst snd] in *.
  rewrite <- app_assoc.
  rewrite (firstn_app_exact t) by (unfold blen in Ht; lia).
  rewrite (skipn_app_exact t) by (unfold blen in Ht; lia).
  rewrite (firstn_app_exact p) by (unfold blen in Hp; lia).
  reflexivity.
Qed.

Lemma map_seq_eq {A B} (g : nat -> B) (h : A -> B) (l : list A) d s :
  (forall k, (k < length l)%nat -> g (s + k)%nat = h (nth k l d)) -> map g (seq s (length l)) = map h l.
Proof.
  revert s. induction l as [|a l IH]; intros s H; [reflexivity|].
  cbn [length seq map]. f_equal.
  - specialize (H 0%nat ltac:(simpl; lia)). rewrite Nat.add_0_r in H. exact H.
  - apply IH. intros k Hk. specialize (H (S k) ltac:(simpl; lia)).
    replace (S s + k)%nat with (s + S k)%nat by lia. exact H.
Qed.

(* What Python's negative indexing promises for a list of n records *)
Definition pyindex (n idx : Z) : option nat :=
  if (- n <=? idx) && (idx <? n) then Some (Z.to_nat (if idx <? 0 then n + idx else idx)) else None.

Lemma formatIndex_spec n idx : 0 <= n ->
  formatIndex n idx = match pyindex n idx with Some i => Some (Z.of_nat i) | None => None end.
Proof.
  intros Hn. unfold formatIndex, pyindex.
  destruct (Z.ltb_spec idx 0), (Z.leb_spec (- n) idx), (Z.ltb_spec idx n); cbn [andb];
    repeat match goal with
           | |- context [?a <? ?b] => destruct (Z.ltb_spec a b)
           | |- context [?a <=? ?b] => destruct (Z.leb_spec a b)
           end; cbn [andb]; try lia; try reflexivity; f_equal; lia.
Qed.

(* MAIN: a file consisting of a header, n complete records and ANY tail shorter than one record
   (in particular every byte prefix of an interrupted append) reports exactly the n records,
   bit for bit, under Python index conventions, and nothing else. *)
Theorem torn_tail_safe hS fS hdr recs tail :
  0 <= fS -> blen hdr = hS -> Forall (wf_rec fS) recs -> blen tail < tSize + fS ->
  let f := file_of hdr recs tail in
  let n := Z.of_nat (length recs) in
  nFieldsL hS (tSize + fS) f = n /\
  (forall idx, readRecL hS fS f idx =
               match pyindex n idx with Some i => Some (nth i recs ([], [])) | None => None end) /\
  timesL hS fS f = map fst recs.
Proof.
  intros HfS Hh Hr Ht f n.
  assert (Hn : nFieldsL hS (tSize + fS) f = n) by (apply nFields_file_of; assumption).
  split; [exact Hn|]. split.
  - intros idx. unfold readRecL. rewrite Hn, formatIndex_spec by (unfold n; lia).
    unfold pyindex. destruct ((- n <=? idx) && (idx <? n)) eqn:E; [|reflexivity].
    f_equal.
    set (i := if idx <? 0 then n + idx else idx).
    assert (Hi : 0 <= i < n) by (subst i; destruct (Z.ltb_spec idx 0); lia).
    rewrite Z2Nat.id by lia.
    apply (slices_file_of hS fS hdr recs tail i ([], [])); assumption.
  - unfold timesL. rewrite Hn. unfold n. rewrite Nat2Z.id.
    apply (map_seq_eq _ fst recs ([], []) 0%nat). intros k Hk. cbn [Nat.add].
    pose proof (slices_file_of hS fS hdr recs tail (Z.of_nat k) ([], []) HfS Hh Hr ltac:(lia)) as S.
    cbv zeta in S. rewrite Nat2Z.id in S. fold f in S. rewrite <- S. reflexivity.
Qed.

Lemma firstn_length_lt {A} (l : list A) k : (k < length l)%nat -> length (firstn k l) = k.
Proof. intros. rewrite firstn_length. lia. Qed.

(* every crash point of an append at once *)
Corollary crash_prefix_safe hS fS hdr recs t p (k : nat) :
  0 <= fS -> blen hdr = hS -> Forall (wf_rec fS) recs -> wf_rec fS (t, p) ->
  (k < length (t ++ p))%nat ->
  let before := file_of hdr recs [] in
  let crashed := firstn (length before + k) (before ++ t ++ p) in
  nFieldsL hS (tSize + fS) crashed = Z.of_nat (length recs) /\
  (forall idx, readRecL hS fS crashed idx = readRecL hS fS before idx) /\
  timesL hS fS crashed = timesL hS fS before.
Proof.
  intros HfS Hh Hr [Ht Hp] Hk before crashed. cbn [fst snd] in *.
  assert (Hlen : blen (t ++ p) = tSize + fS) by (rewrite blen_app; lia).
  assert (E : crashed = file_of hdr recs (firstn k (t ++ p))).
  { unfold crashed, before, file_of. rewrite !app_nil_r.
    rewrite firstn_app, firstn_all2 by lia.
    replace (length (hdr ++ body recs) + k - length (hdr ++ body recs))%nat with k by lia.
    rewrite <- app_assoc. reflexivity. }
  assert (Hk' : blen (firstn k (t ++ p)) < tSize + fS).
  { unfold blen in *. rewrite firstn_length_lt by exact Hk. lia. }
  destruct (torn_tail_safe hS fS hdr recs (firstn k (t ++ p)) HfS Hh Hr Hk') as (A1 & A2 & A3).
  destruct (torn_tail_safe hS fS hdr recs [] HfS Hh Hr ltac:(unfold tSize; rewrite blen_nil; lia)) as (B1 & B2 & B3).
  rewrite E. fold before in B1, B2, B3. split; [exact A1|]. split.
  - intros idx. rewrite A2, B2. reflexivity.
  - rewrite A3, B3. reflexivity.
Qed.

(* the completed append (k = whole record) adds exactly that record at the end *)
Lemma file_of_snoc hdr recs t p : file_of hdr recs [] ++ t ++ p = file_of hdr (recs ++ [(t, p)]) [].
Proof.
  unfold file_of. rewrite !app_nil_r, body_app, <- !app_assoc. f_equal. f_equal.
  unfold body. simpl. rewrite app_nil_r. reflexivity.
Qed.

(* ------------------------------------------------------------------ appending *)
Lemma addBytes_raw h f t p : addBytes Raw h f t p = Ok (f ++ t ++ p).
Proof. reflexivity. Qed.

(* the repaired write position discards the torn tail *)
Theorem aligned_add_after_torn h hdr recs tail t p :
  0 <= fSize h -> blen hdr = hSize h -> Forall (wf_rec (fSize h)) recs -> blen tail < recSize h ->
  addBytes Aligned h (file_of hdr recs tail) t p = Ok (file_of hdr (recs ++ [(t, p)]) []).
Proof.
  intros HfS Hh Hr Ht. unfold addBytes, nFields, recSize in *.
  rewrite (nFields_file_of (hSize h) (fSize h)) by assumption.
  pose proof (blen_nonneg hdr). unfold tSize in *.
  destruct (Z.ltb_spec (hSize h + Z.of_nat (length recs) * (8 + fSize h)) 0); [nia|].
  f_equal. rewrite <- file_of_snoc. f_equal.
  unfold file_of. rewrite app_nil_r, app_assoc.
  apply firstn_app_exact.
  pose proof (body_len (fSize h) recs HfS Hr) as B. unfold blen, tSize in *. rewrite app_length. nia.
Qed.

(* ------------------------------------------------------------------ headers *)
Lemma in_range_1 x : in_range 1 x <-> -128 <= x < 128.
Proof. unfold in_range. change (256 ^ Z.of_nat 1 / 2) with 128. lia. Qed.

Lemma flat_map_le4_len l : blen (flat_map (le_enc 4) l) = 4 * Z.of_nat (length l).
Proof.
  induction l; [reflexivity|]. cbn [flat_map length]. rewrite blen_app, IHl.
  unfold blen at 1. rewrite le_enc_length. lia.
Qed.

Lemma chunk4_flat_map l : chunk4 (flat_map (le_enc 4) l) = map (le_enc 4) l.
Proof.
  induction l; [reflexivity|]. cbn [flat_map map].
  destruct (le_enc_4 a) as (b0 & b1 & b2 & b3 & E). rewrite E. cbn [app chunk4]. rewrite IHl. reflexivity.
Qed.

Lemma map_dec_enc4 l : Forall (in_range 4) l -> map dec_int (map (le_enc 4) l) = l.
Proof.
  induction 1; [reflexivity|]. cbn [map]. rewrite dec_int_enc by (assumption || lia). rewrite IHForall. reflexivity.
Qed.

Lemma prodZ_nonneg l : Forall (fun x => 0 <= x) l -> 0 <= prodZ l.
Proof. induction 1; simpl; [lia|]. apply Z.mul_nonneg_nonneg; assumption. Qed.

Lemma gridSizes_nonneg h : Forall (fun x => 0 <= x) (gridSizes h).
Proof.
  unfold gridSizes. apply Forall_forall. intros x Hx. apply in_map_iff in Hx as (c & <- & _).
  pose proof (blen_nonneg c). apply Z.div_pos; lia.
Qed.

Lemma itemSize_nonneg dt : 0 <= itemSize dt.
Proof. unfold itemSize. destruct dt as [|p|p]; try lia. do 3 (destruct p; try lia). Qed.

Lemma fSize_nonneg h : 0 <= h_nVar h -> 0 <= fSize h.
Proof.
  intros Hn. unfold fSize, nItems. pose proof (itemSize_nonneg (h_dtype h)).
  pose proof (prodZ_nonneg _ (gridSizes_nonneg h)).
  destruct (h_kind h); nia.
Qed.

Lemma wf_fSize_nonneg h : wf_header h -> 0 <= fSize h.
Proof. intros (_ & H & _). apply fSize_nonneg, H. Qed.

Lemma recSize_ge8 h : 0 <= h_nVar h -> 8 <= recSize h.
Proof. intros H. unfold recSize, tSize. pose proof (fSize_nonneg h H). lia. Qed.

Lemma header_bytes_len h : blen (header_bytes h) = hSize h.
Proof.
  unfold header_bytes, hBase, hInfos, hSize. destruct (h_kind h).
  - rewrite !blen_app. unfold blen. rewrite !le_enc_length. reflexivity.
  - rewrite !blen_app, flat_map_le4_len. unfold blen at 1 2 3 4. rewrite !le_enc_length.
    unfold gridSizes. rewrite map_length. lia.
Qed.

Lemma read_coords_exact cs rest :
  Forall (fun c => blen c mod 8 = 0 /\ in_range 4 (blen c / 8)) cs ->
  read_coords (map (fun c => blen c / 8) cs) (concat cs ++ rest) = (cs, rest).
Proof.
  induction 1 as [|c cs [Hc _] _ IH]; [reflexivity|].
  cbn [map concat read_coords]. rewrite <- app_assoc.
  pose proof (blen_nonneg c).
  rewrite read_items_exact by lia. rewrite IH. reflexivity.
Qed.

Lemma dtype_known_range dt : dtype_known dt = true -> 0 <= dt <= 5.
Proof. unfold dtype_known. lia. Qed.

Theorem header_roundtrip h rest :
  wf_header h -> decode_header_rest (header_bytes h ++ rest) = Ok (h, rest).
Proof.
  destruct h as [k dt nv cs]. unfold wf_header. cbn [h_kind h_dtype h_nVar h_coords].
  intros (Hdt & Hnv & Hk).
  pose proof (dtype_known_range dt Hdt) as Hdr.
  assert (Hd1 : dec_int (le_enc 1 dt) = dt) by (apply dec_int_enc; [lia|apply in_range_1; lia]).
  unfold decode_header_rest, header_bytes, hBase.
  cbn [h_kind h_dtype h_nVar h_coords].
  rewrite <- app_assoc.
  rewrite (read_items_exact 1 2 (le_enc 1 (sid k) ++ le_enc 1 dt))
    by (try lia; unfold blen; rewrite app_length, !le_enc_length; reflexivity).
  change (le_enc 1 (sid k) ++ le_enc 1 dt) with [sid k mod 256; dt mod 256].
  cbv beta iota zeta.
  change (dec_int [dt mod 256]) with (dec_int (le_enc 1 dt)). rewrite Hd1, Hdt. cbn [negb].
  destruct k; cbn [sid].
  - (* Scalar *)
    destruct Hk as [-> Hr].
    change (dec_int [0 mod 256]) with 0. cbn [Z.eqb].
    unfold hInfos. cbn [h_kind h_nVar].
    rewrite (read_items_exact 8 1 (le_enc 8 nv))
      by (try lia; unfold blen; rewrite le_enc_length; reflexivity).
    unfold blen. rewrite le_enc_length. cbn [Z.of_nat Pos.of_succ_nat Pos.succ Z.eqb Pos.eqb].
    rewrite dec_int_enc by (assumption || lia). reflexivity.
  - (* Rectilinear *)
    destruct Hk as (Hnr & Hdim & Hcs).
    change (dec_int [1 mod 256]) with 1. cbn [Z.eqb Pos.eqb].
    unfold hInfos. cbn [h_kind h_nVar h_coords].
    set (dm := Z.of_nat (length cs)) in *.
    rewrite !app_assoc. rewrite <- (app_assoc _ (concat cs) rest).
    rewrite <- (app_assoc _ (flat_map (le_enc 4) (gridSizes (mkHeader SRect dt nv cs)))).
    rewrite (read_items_exact 4 2 (le_enc 4 nv ++ le_enc 4 dm))
      by (try lia; unfold blen; rewrite app_length, !le_enc_length; reflexivity).
    assert (Hv : blen (le_enc 4 nv ++ le_enc 4 dm) =? 8 = true)
      by (unfold blen; rewrite app_length, !le_enc_length; reflexivity).
    rewrite Hv.
    rewrite (firstn_app_exact (le_enc 4 nv)) by apply le_enc_length.
    rewrite (skipn_app_exact (le_enc 4 nv)) by apply le_enc_length.
    rewrite !dec_int_enc by (assumption || lia).
    unfold gridSizes. cbn [h_coords].
    rewrite (read_items_exact 4 dm)
      by (try lia; rewrite flat_map_le4_len, map_length; unfold dm; lia).
    rewrite chunk4_flat_map, map_dec_enc4.
    + rewrite read_coords_exact by assumption. reflexivity.
    + apply Forall_forall. intros x Hx. apply in_map_iff in Hx as (c & <- & Hc).
      apply (proj1 (Forall_forall _ _) Hcs c Hc).
Qed.

(* ------------------------------------------------------------------ header-level statements *)
Definition wf_recs (h : header) (recs : list (bytes * bytes)) : Prop := Forall (wf_rec (fSize h)) recs.

(* header, complete records, torn tail *)
Definition the_file (h : header) (recs : list (bytes * bytes)) (tail : bytes) : bytes :=
  file_of (header_bytes h) recs tail.

(* addField called for each record in turn *)
Fixpoint add_all (m : add_mode) (h : header) (f : bytes) (recs : list (bytes * bytes)) : result bytes :=
  match recs with
  | [] => Ok f
  | r :: rs => match addBytes m h f (fst r) (snd r) with
               | Ok f' => add_all m h f' rs
               | Err e => Err e
               end
  end.

Lemma add_clean m h recs t p : wf_header h -> wf_recs h recs ->
  addBytes m h (the_file h recs []) t p = Ok (the_file h (recs ++ [(t, p)]) []).
Proof.
  intros Hh Hr. destruct m.
  - rewrite addBytes_raw. unfold the_file. rewrite file_of_snoc. reflexivity.
  - unfold the_file. apply aligned_add_after_torn.
    + apply wf_fSize_nonneg, Hh.
    + apply header_bytes_len.
    + exact Hr.
    + destruct Hh as (_ & Hn & _). pose proof (recSize_ge8 h Hn). rewrite blen_nil. lia.
Qed.

Lemma add_all_ok m h recs0 recs : wf_header h -> wf_recs h recs0 -> wf_recs h recs ->
  add_all m h (the_file h recs0 []) recs = Ok (the_file h (recs0 ++ recs) []).
Proof.
  intros Hh H0 H. revert recs0 H0. induction H as [|r rs Hr Hrs IH]; intros recs0 H0.
  - rewrite app_nil_r. reflexivity.
  - cbn [add_all]. destruct r as [t p]. cbn [fst snd]. rewrite add_clean by assumption.
    rewrite IH by (apply Forall_app; split; [assumption|constructor; [assumption|constructor]]).
    rewrite <- app_assoc. reflexivity.
Qed.

Lemma the_file_nil h : the_file h [] [] = header_bytes h.
Proof. unfold the_file, file_of. simpl. rewrite app_nil_r. reflexivity. Qed.

Lemma decode_the_file h recs tail : wf_header h -> decode_header (the_file h recs tail) = Ok h.
Proof. intros Hh. unfold decode_header, the_file, file_of. rewrite header_roundtrip by assumption. reflexivity. Qed.

Definition expected_read (recs : list (bytes * bytes)) (idx : Z) : result (bytes * bytes) :=
  match pyindex (Z.of_nat (length recs)) idx with
  | Some i => Ok (nth i recs ([], []))
  | None => Err EAssert
  end.

(* reads of a handle with header h on header + records + torn tail *)
Theorem reads_the_file h recs tail :
  wf_header h -> wf_recs h recs -> blen tail < recSize h ->
  let f := the_file h recs tail in
  decode_header f = Ok h /\
  nFields h f = Z.of_nat (length recs) /\
  (is0d h = false -> forall idx, readField h f idx = expected_read recs idx) /\
  (is0d h = false -> times h f = Ok (map fst recs)).
Proof.
  intros Hh Hr Ht f.
  destruct (torn_tail_safe (hSize h) (fSize h) (header_bytes h) recs tail
              (wf_fSize_nonneg h Hh) (header_bytes_len h) Hr Ht) as (A1 & A2 & A3).
  fold (the_file h recs tail) in A1, A2, A3. fold f in A1, A2, A3.
  split; [apply decode_the_file, Hh|]. split; [exact A1|]. split.
  - intros H0 idx. unfold readField, expected_read. rewrite A2, H0.
    destruct (pyindex _ idx); reflexivity.
  - intros H0. unfold times. rewrite H0. cbn [andb]. rewrite A3. reflexivity.
Qed.

(* (1) round trip: after initialize and ANY sequence of addField calls (either write mode), a handle
   re-opened from the file has the same header, and every index returns the record written there *)
Theorem records_roundtrip m h recs :
  wf_header h -> wf_recs h recs ->
  exists f, add_all m h (header_bytes h) recs = Ok f /\
    decode_header f = Ok h /\
    nFields h f = Z.of_nat (length recs) /\
    (is0d h = false -> forall idx, readField h f idx = expected_read recs idx) /\
    (is0d h = false -> times h f = Ok (map fst recs)).
Proof.
  intros Hh Hr. exists (the_file h recs []). split.
  - rewrite <- the_file_nil. rewrite add_all_ok by (assumption || constructor). reflexivity.
  - apply reads_the_file; try assumption.
    destruct Hh as (_ & Hn & _). pose proof (recSize_ge8 h Hn). rewrite blen_nil. lia.
Qed.

(* (2) every crash point of an append: the file keeps the first k bytes of what addField writes *)
Theorem crash_prefix_safe_hdr m h recs t p (k : nat) :
  wf_header h -> wf_recs h recs -> wf_rec (fSize h) (t, p) -> (k < length (t ++ p))%nat ->
  let before := the_file h recs [] in
  exists after, addBytes m h before t p = Ok after /\
    let crashed := firstn (length before + k) after in
    decode_header crashed = Ok h /\
    nFields h crashed = Z.of_nat (length recs) /\
    (is0d h = false -> forall idx, readField h crashed idx = expected_read recs idx) /\
    (is0d h = false -> times h crashed = Ok (map fst recs)).
Proof.
  intros Hh Hr Hw Hk before. exists (before ++ t ++ p). split.
  - unfold before. rewrite add_clean by assumption. unfold the_file. rewrite file_of_snoc. reflexivity.
  - intros crashed.
    assert (E : crashed = the_file h recs (firstn k (t ++ p))).
    { unfold crashed, before, the_file, file_of. rewrite !app_nil_r.
      rewrite firstn_app, firstn_all2 by lia.
      replace (length (header_bytes h ++ body recs) + k - length (header_bytes h ++ body recs))%nat with k by lia.
      rewrite <- app_assoc. reflexivity. }
    rewrite E. apply reads_the_file; try assumption.
    destruct Hw as [Ht Hp]. cbn [fst snd] in *. unfold blen in *. rewrite firstn_length_lt by exact Hk.
    rewrite app_length in Hk. unfold recSize. lia.
Qed.

(* (3) the clause "fields appended after re-opening are again read back exactly" *)
(* holds for the aligned write position ... *)
Theorem append_after_crash_safe_aligned h recs tail t p :
  wf_header h -> wf_recs h recs -> wf_rec (fSize h) (t, p) -> blen tail < recSize h ->
  exists f', addBytes Aligned h (the_file h recs tail) t p = Ok f' /\
    decode_header f' = Ok h /\
    nFields h f' = Z.of_nat (length recs) + 1 /\
    (is0d h = false -> forall idx, readField h f' idx = expected_read (recs ++ [(t, p)]) idx) /\
    (is0d h = false -> readField h f' (-1) = Ok (t, p)).
Proof.
  intros Hh Hr Hw Ht. exists (the_file h (recs ++ [(t, p)]) []).
  assert (Hr' : wf_recs h (recs ++ [(t, p)])) by (apply Forall_app; split; [assumption|constructor; [assumption|constructor]]).
  assert (H8 : blen [] < recSize h)
    by (destruct Hh as (_ & Hn & _); pose proof (recSize_ge8 h Hn); rewrite blen_nil; lia).
  destruct (reads_the_file h (recs ++ [(t, p)]) [] Hh Hr' H8) as (B1 & B2 & B3 & B4).
  split; [|split; [exact B1|split; [|split; [exact B3|]]]].
  - unfold the_file. apply aligned_add_after_torn; try assumption.
    + apply wf_fSize_nonneg, Hh.
    + apply header_bytes_len.
  - rewrite B2, app_length. cbn [length]. lia.
  - intros H0. rewrite (B3 H0). unfold expected_read, pyindex. rewrite app_length. cbn [length].
    set (n := Z.of_nat (length recs + 1)).
    assert (Hn : 1 <= n) by (unfold n; lia).
    replace ((- n <=? -1) && (-1 <? n)) with true by lia.
    change (-1 <? 0) with true. cbv iota.
    replace (Z.to_nat (n + -1)) with (length recs) by (unfold n; lia).
    rewrite app_nth2, Nat.sub_diag by lia. reflexivity.
Qed.

(* ... and is REFUTED for the pinned code (append at the end of the file): Scalar float64 file with
   nVar = 2, one complete record, an append cut after 19 of 24 bytes, re-open, append. *)
Definition cex_h : header := mkHeader SScalar 0 2 [].
Definition cex_r0 : bytes * bytes := (repeat 0 8, repeat 1 16).
Definition cex_r1 : bytes * bytes := (repeat 2 8, repeat 3 16).
Definition cex_r2 : bytes * bytes := (repeat 4 8, repeat 5 16).

Theorem append_after_crash_refuted :
  exists h recs t p k t' p',
    wf_header h /\ wf_recs h recs /\ wf_rec (fSize h) (t, p) /\ wf_rec (fSize h) (t', p') /\
    (k < length (t ++ p))%nat /\ is0d h = false /\
    let before := the_file h recs [] in
    let crashed := firstn (length before + k) (before ++ t ++ p) in
    exists f', addBytes Raw h crashed t' p' = Ok f' /\
      decode_header f' = Ok h /\
      nFields h f' = Z.of_nat (length recs) + 1 /\
      readField h f' (-1) <> Ok (t', p') /\
      (forall idx, readField h f' idx <> Ok (t', p')).
Proof.
  exists cex_h, [cex_r0], (fst cex_r1), (snd cex_r1), 19%nat, (fst cex_r2), (snd cex_r2).
  split. { unfold wf_header, in_range. cbn. repeat split; try lia; reflexivity. }
  split. { repeat constructor. }
  split. { split; reflexivity. }
  split. { split; reflexivity. }
  split. { cbn. lia. }
  split. { reflexivity. }
  cbv zeta. eexists. split; [reflexivity|].
  split; [vm_compute; reflexivity|]. split; [vm_compute; reflexivity|].
  split; [vm_compute; discriminate|].
  intros idx. unfold readField, readRecL.
  match goal with |- context [nFieldsL ?a ?b ?c] => let v := eval vm_compute in (nFieldsL a b c) in change (nFieldsL a b c) with v end.
  unfold formatIndex.
  destruct (idx <? 0) eqn:E.
  - destruct (Z.eq_dec idx (-1)) as [->|]; [vm_compute; discriminate|].
    destruct (Z.eq_dec idx (-2)) as [->|]; [vm_compute; discriminate|].
    replace ((2 + idx <? 2) && (0 <=? 2 + idx)) with false by lia. discriminate.
  - destruct (Z.eq_dec idx 0) as [->|]; [vm_compute; discriminate|].
    destruct (Z.eq_dec idx 1) as [->|]; [vm_compute; discriminate|].
    replace ((idx <? 2) && (0 <=? idx)) with false by lia. discriminate.
Qed.

(* (4) overwrite protection: initialize() with ALLOW_OVERWRITE = False never changes an existing file *)
Theorem overwrite_protected m s k f :
  file s = Some f ->
  let '(s', r, _) := step m s (OInit k false) in
  file s' = Some f /\ handles s' = handles s /\ (r = RErr EExists \/ r = RErr EAssert).
Proof.
  intros Hf. unfold step. destruct (inited (nth k (handles s) dummy_handle)).
  - auto.
  - rewrite Hf. auto.
Qed.

Theorem initialize_writes_header m s k allow :
  inited (nth k (handles s) dummy_handle) = false -> (file s = None \/ allow = true) ->
  let '(s', r, _) := step m s (OInit k allow) in
  file s' = Some (header_bytes (hd (nth k (handles s) dummy_handle))) /\ r = ROk.
Proof.
  intros Hi Hc. unfold step. rewrite Hi. destruct (file s), allow; cbn; auto.
  destruct Hc; discriminate.
Qed.

(* ------------------------------------------------------------------ crash during header creation *)
Lemma read_items_short k cnt b : 0 < k -> blen b < k -> read_items k cnt b = ([], b).
Proof.
  intros Hk Hb. unfold read_items. pose proof (blen_nonneg b). rewrite Z.div_small by lia.
  replace (Z.min (Z.max cnt 0) 0) with 0 by lia. reflexivity.
Qed.

Lemma read_items_gen k cnt b : 0 < k -> 0 <= cnt ->
  fst (read_items k cnt b) ++ snd (read_items k cnt b) = b /\
  (blen (fst (read_items k cnt b)) = cnt * k \/
   (blen (fst (read_items k cnt b)) = blen b / k * k /\ blen (snd (read_items k cnt b)) < k)).
Proof.
  intros Hk Hc. unfold read_items. cbn [fst snd]. split; [apply firstn_skipn|].
  set (n := Z.min (Z.max cnt 0) (blen b / k)).
  pose proof (blen_nonneg b). assert (0 <= blen b / k) by (apply Z.div_pos; lia).
  assert (Hn : 0 <= n <= blen b / k) by lia.
  assert (Hnk : n * k <= blen b) by (pose proof (Z.mul_div_le (blen b) k Hk); nia).
  assert (Hx : blen (firstn (Z.to_nat (n * k)) b) = n * k) by (unfold blen in *; rewrite firstn_length; lia).
  assert (Hr : blen (skipn (Z.to_nat (n * k)) b) = blen b - n * k) by (unfold blen in *; rewrite skipn_length; lia).
  destruct (Z_le_gt_dec cnt (blen b / k)).
  - left. assert (E : n = cnt) by (unfold n; lia). rewrite Hx, E. reflexivity.
  - right. assert (E : n = blen b / k) by (unfold n; lia). rewrite Hx, Hr, E. split; [reflexivity|].
    pose proof (Z.mod_pos_bound (blen b) k Hk) as M. rewrite Z.mod_eq in M by lia. lia.
Qed.

Lemma concat_map_nil {A B} (l : list A) : concat (map (fun _ => @nil B) l) = [].
Proof. induction l; simpl; auto. Qed.

Lemma read_coords_lt8 sizes b : blen b < 8 -> read_coords sizes b = (map (fun _ => []) sizes, b).
Proof.
  intros Hb. induction sizes as [|n sizes IH]; [reflexivity|].
  cbn [read_coords map]. rewrite read_items_short by lia. rewrite IH. reflexivity.
Qed.

Definition zsum (l : list Z) : Z := fold_right Z.add 0 l.

Lemma read_coords_short sizes : Forall (fun n => 0 <= n) sizes -> forall b, blen b < 8 * zsum sizes ->
  concat (fst (read_coords sizes b)) ++ snd (read_coords sizes b) = b /\
  length (fst (read_coords sizes b)) = length sizes /\
  blen (snd (read_coords sizes b)) < 8.
Proof.
  induction 1 as [|n sizes Hn Hs IH]; intros b Hb.
  - cbn in Hb. pose proof (blen_nonneg b). lia.
  - cbn [read_coords]. pose proof (read_items_gen 8 n b ltac:(lia) Hn) as (G1 & G2).
    destruct (read_items 8 n b) as [x r1]. cbn [fst snd] in *.
    destruct G2 as [Gf|[Gs1 Gs2]].
    + assert (Hr1 : blen r1 < 8 * zsum sizes).
      { rewrite <- G1, blen_app in Hb. cbn [zsum fold_right] in Hb. fold (zsum sizes) in Hb. lia. }
      destruct (IH r1 Hr1) as (I1 & I2 & I3).
      destruct (read_coords sizes r1) as [cs r]. cbn [fst snd concat length] in *.
      rewrite <- app_assoc, I1, G1. split; [reflexivity|]. split; [lia|assumption].
    + rewrite read_coords_lt8 by lia. cbn [fst snd concat length].
      rewrite concat_map_nil, app_nil_r, map_length. split; [exact G1|]. split; [reflexivity|lia].
Qed.

Lemma chunk4_length n : forall g, length g = (4 * n)%nat -> length (chunk4 g) = n.
Proof.
  induction n; intros g Hg.
  - destruct g; [reflexivity|discriminate].
  - destruct g as [|a [|b [|c [|d r]]]]; simpl in Hg; try lia.
    cbn [chunk4 length]. f_equal. apply IHn. lia.
Qed.

Lemma app_eq_len {A} (a b c d : list A) : a ++ b = c ++ d -> length a = length c -> a = c /\ b = d.
Proof.
  revert c. induction a; intros c H L; destruct c; simpl in *; try discriminate; auto.
  injection H as -> H. destruct (IHa c H ltac:(lia)) as [-> ->]. auto.
Qed.

Lemma firstn_app_ge {A} (a b : list A) k : (length a <= k)%nat -> firstn k (a ++ b) = a ++ firstn (k - length a) b.
Proof. intros H. rewrite firstn_app, firstn_all2 by lia. reflexivity. Qed.

Lemma no_records hS fS f : nFieldsL hS (tSize + fS) f = 0 ->
  timesL hS fS f = [] /\ forall idx, readRecL hS fS f idx = None.
Proof.
  intros H. unfold timesL, readRecL. rewrite H. split; [reflexivity|].
  intros idx. unfold formatIndex.
  destruct (Z.ltb_spec idx 0).
  - replace ((0 + idx <? 0) && (0 <=? 0 + idx)) with false by lia. reflexivity.
  - replace ((idx <? 0) && (0 <=? idx)) with false by lia. reflexivity.
Qed.

Lemma coords_len_sum cs : Forall (fun c => blen c mod 8 = 0 /\ in_range 4 (blen c / 8)) cs ->
  blen (concat cs) = 8 * zsum (map (fun c => blen c / 8) cs).
Proof.
  induction 1 as [|c cs [Hc _] _ IH]; [reflexivity|].
  cbn [concat map zsum fold_right]. fold (zsum (map (fun c => blen c / 8) cs)).
  rewrite blen_app, IH. lia.
Qed.

Lemma hBase_explicit h : hBase h = [sid (h_kind h) mod 256; h_dtype h mod 256].
Proof. reflexivity. Qed.

(* A handle with header h' on file p reports no records *)
Definition reports_nothing (h' : header) (p : bytes) : Prop :=
  nFields h' p = 0 /\ timesL (hSize h') (fSize h') p = [] /\
  forall idx, readRecL (hSize h') (fSize h') p idx = None.

Lemma reports_nothing_of h' p r : 0 <= h_nVar h' -> blen p = hSize h' + blen r -> blen r < 8 ->
  reports_nothing h' p.
Proof.
  intros Hn Hp Hr. pose proof (recSize_ge8 h' Hn). pose proof (blen_nonneg r).
  assert (N : nFields h' p = 0).
  { unfold nFields, nFieldsL. rewrite Hp. replace (hSize h' + blen r - hSize h') with (blen r) by lia.
    apply Z.div_small. lia. }
  split; [exact N|]. apply no_records. exact N.
Qed.

(* (5) a crash at ANY byte of header creation: fromFile either raises, or yields a handle that
   reports no record at all (np.fromfile reads leniently, so a cut Rectilinear header may still
   be opened — with fewer/shorter axes — but never with records) *)
Theorem header_crash_safe h (k : nat) :
  wf_header h -> (k < length (header_bytes h))%nat ->
  let p := firstn k (header_bytes h) in
  (exists e, decode_header p = Err e) \/
  (exists h', decode_header p = Ok h' /\ reports_nothing h' p).
Proof.
  destruct h as [kind dt nv cs]. unfold wf_header. cbn [h_kind h_dtype h_nVar h_coords].
  intros (Hdt & Hnv & Hk) Hlt.
  pose proof (dtype_known_range dt Hdt) as Hdr.
  assert (Hd1 : dec_int (le_enc 1 dt) = dt) by (apply dec_int_enc; [lia|apply in_range_1; lia]).
  unfold header_bytes in *. rewrite hBase_explicit in *. cbn [h_kind h_dtype app] in *.
  destruct k as [|[|k']].
  - left. eexists. reflexivity.
  - left. eexists. reflexivity.
  - cbn [firstn]. cbn [length] in Hlt.
    set (q := firstn k' (hInfos (mkHeader kind dt nv cs))).
    assert (Hq : blen q = Z.of_nat k').
    { unfold q, blen. rewrite firstn_length. lia. }
    unfold decode_header, decode_header_rest.
    change (sid kind mod 256 :: dt mod 256 :: q) with ([sid kind mod 256; dt mod 256] ++ q).
    rewrite (read_items_exact 1 2 [sid kind mod 256; dt mod 256]) by (try lia; reflexivity).
    cbv beta iota zeta.
    change (dec_int [dt mod 256]) with (dec_int (le_enc 1 dt)). rewrite Hd1, Hdt. cbn [negb].
    destruct kind; cbn [sid].
    + (* Scalar: fewer than 8 bytes of the int64 *)
      change (dec_int [0 mod 256]) with 0. cbn [Z.eqb].
      unfold hInfos in *. cbn [h_kind h_nVar] in *. rewrite le_enc_length in Hlt.
      rewrite read_items_short by lia. left. eexists. reflexivity.
    + (* Rectilinear *)
      destruct Hk as (Hnr & Hdim & Hcs).
      change (dec_int [1 mod 256]) with 1. cbn [Z.eqb Pos.eqb].
      unfold hInfos in *. cbn [h_kind h_nVar h_coords] in *.
      set (dm := Z.of_nat (length cs)) in *.
      set (G := flat_map (le_enc 4) (gridSizes (mkHeader SRect dt nv cs))) in *.
      set (v := le_enc 4 nv ++ le_enc 4 dm).
      assert (Hv : length v = 8%nat) by (unfold v; rewrite app_length, !le_enc_length; reflexivity).
      assert (Hq' : q = firstn k' (v ++ G ++ concat cs)).
      { unfold q, v. rewrite <- app_assoc. reflexivity. }
      assert (HG : blen G = 4 * dm).
      { unfold G. rewrite flat_map_le4_len. unfold gridSizes. rewrite map_length. reflexivity. }
      assert (Htot : (S (S k') < 2 + (8 + (length G + length (concat cs))))%nat).
      { revert Hlt. unfold G. rewrite !app_length, !le_enc_length. lia. }
      destruct (Nat.lt_ge_cases k' 8) as [Hk8|Hk8].
      * (* nVar/dim incomplete *)
        pose proof (read_items_gen 4 2 q ltac:(lia) ltac:(lia)) as (G1 & G2).
        destruct (read_items 4 2 q) as [x r]. cbn [fst snd] in *.
        assert (Hx : blen x <= blen q) by (rewrite <- G1, blen_app; pose proof (blen_nonneg r); lia).
        destruct (Z.eqb_spec (blen x) 8) as [E|E]; [lia|]. left. eexists. reflexivity.
      * (* nVar and dim complete *)
        rewrite Hq', firstn_app_ge by lia. rewrite Hv.
        set (q2 := firstn (k' - 8) (G ++ concat cs)).
        rewrite (read_items_exact 4 2 v) by (try lia; unfold blen; rewrite Hv; reflexivity).
        assert (Hvb : blen v =? 8 = true) by (unfold blen; rewrite Hv; reflexivity).
        rewrite Hvb.
        assert (F1 : dec_int (firstn 4 v) = nv).
        { unfold v. rewrite (firstn_app_exact (le_enc 4 nv)) by apply le_enc_length.
          apply dec_int_enc; [lia|assumption]. }
        assert (F2 : dec_int (skipn 4 v) = dm).
        { unfold v. rewrite (skipn_app_exact (le_enc 4 nv)) by apply le_enc_length.
          apply dec_int_enc; [lia|assumption]. }
        rewrite F1, F2.
        right.
        assert (Hq2 : blen q2 = Z.of_nat (k' - 8)).
        { unfold q2, blen. rewrite firstn_length, app_length. lia. }
        pose proof (read_items_gen 4 dm q2 ltac:(lia) ltac:(unfold dm; lia)) as (G1 & G2).
        destruct (read_items 4 dm q2) as [g r2]. cbn [fst snd] in *.
        destruct G2 as [Gf|[Gs1 Gs2]].
        -- (* all grid sizes read; coordinates cut *)
           assert (Hge : (length G <= k' - 8)%nat).
           { rewrite <- G1, blen_app in Hq2. pose proof (blen_nonneg r2). unfold blen in *. lia. }
           unfold q2 in G1. rewrite firstn_app_ge in G1 by exact Hge.
           destruct (app_eq_len _ _ _ _ G1 ltac:(unfold blen in *; lia)) as [-> ->].
           unfold G at 1. rewrite chunk4_flat_map, map_dec_enc4.
           2:{ apply Forall_forall. intros x Hx. unfold gridSizes in Hx. apply in_map_iff in Hx as (c & <- & Hc).
               apply (proj1 (Forall_forall _ _) Hcs c Hc). }
           set (C' := firstn (k' - 8 - length G) (concat cs)).
           assert (HC' : blen C' < 8 * zsum (gridSizes (mkHeader SRect dt nv cs))).
           { unfold gridSizes. cbn [h_coords]. rewrite <- coords_len_sum by assumption.
             unfold C', blen. rewrite firstn_length. lia. }
           destruct (read_coords_short _ (gridSizes_nonneg (mkHeader SRect dt nv cs)) C' HC') as (R1 & R2 & R3).
           destruct (read_coords (gridSizes (mkHeader SRect dt nv cs)) C') as [cs' r]. cbn [fst snd] in *.
           eexists. split; [reflexivity|].
           apply (reports_nothing_of _ _ r); [exact Hnv| |exact R3].
           unfold hSize. cbn [h_kind h_coords].
           assert (Eq2 : q2 = G ++ C') by (unfold q2, C'; apply firstn_app_ge; exact Hge).
           rewrite Eq2, !blen_app, <- R1, blen_app, HG. unfold gridSizes in R2. cbn [h_coords] in R2. rewrite map_length in R2.
           unfold blen at 1 2. rewrite Hv, R2. cbn [length]. unfold dm. lia.
        -- (* grid sizes cut: the remaining bytes are fewer than one item of any later read *)
           rewrite read_coords_lt8 by lia.
           eexists. split; [reflexivity|].
           apply (reports_nothing_of _ _ r2); [exact Hnv| |lia].
           unfold hSize. cbn [h_kind h_coords]. rewrite concat_map_nil, !map_length.
           assert (Hg4 : exists n, length g = (4 * n)%nat).
           { exists (Z.to_nat (blen q2 / 4)). pose proof (blen_nonneg q2).
             assert (0 <= blen q2 / 4) by (apply Z.div_pos; lia). unfold blen in *. lia. }
           destruct Hg4 as [n Hn]. rewrite (chunk4_length n g Hn).
           rewrite !blen_app, <- G1, blen_app. unfold blen at 1 2 3. rewrite Hv, Hn. cbn [length]. rewrite blen_nil. lia.
Qed.

(* ------------------------------------------------------------------ any history of one file *)
(* Operations on a file created by initialize() with header h, through any handle carrying h
   (the creating one or one obtained later from fromFile): *)
Inductive hop :=
| HAdd (t p : bytes)      (* addField *)
| HTorn (tail : bytes)    (* crash of an append: the complete records survive, followed by fewer than
                             recSize ARBITRARY bytes (covers every byte prefix of the record being written,
                             also when it was being written over an older torn tail) *)
| HReopen                 (* FieldsIO.fromFile *)
| HRead (idx : Z)
| HNFields
| HTimes.

Inductive hobs :=
| OUnit | OHdr (r : result header) | ORec (r : result (bytes * bytes)) | ONum (n : Z)
| OTimesR (r : result (list bytes)).

Definition wf_recb (fS : Z) (t p : bytes) : bool := (blen t =? tSize) && (blen p =? fS).

Definition conc_step (m : add_mode) (h : header) (f : bytes) (o : hop) : bytes * hobs :=
  match o with
  | HAdd t p => if wf_recb (fSize h) t p
                then match addBytes m h f t p with Ok f' => (f', OUnit) | Err _ => (f, OUnit) end
                else (f, OUnit)                       (* the size/dtype assertions reject the field *)
  | HTorn tail => if blen tail <? recSize h
                  then (firstn (Z.to_nat (hSize h + nFields h f * recSize h)) f ++ tail, OUnit)
                  else (f, OUnit)
  | HReopen => (f, OHdr (decode_header f))
  | HRead idx => (f, ORec (readField h f idx))
  | HNFields => (f, ONum (nFields h f))
  | HTimes => (f, OTimesR (times h f))
  end.

(* the specification: a list of records *)
Definition spec_step (h : header) (recs : list (bytes * bytes)) (o : hop) : list (bytes * bytes) * hobs :=
  match o with
  | HAdd t p => if wf_recb (fSize h) t p then (recs ++ [(t, p)], OUnit) else (recs, OUnit)
  | HTorn _ => (recs, OUnit)
  | HReopen => (recs, OHdr (Ok h))
  | HRead idx => (recs, ORec (expected_read recs idx))
  | HNFields => (recs, ONum (Z.of_nat (length recs)))
  | HTimes => (recs, OTimesR (Ok (map fst recs)))
  end.

Fixpoint conc_run (m : add_mode) (h : header) (f : bytes) (ops : list hop) : list hobs :=
  match ops with
  | [] => []
  | o :: r => let '(f', ob) := conc_step m h f o in ob :: conc_run m h f' r
  end.

Fixpoint spec_run (h : header) (recs : list (bytes * bytes)) (ops : list hop) : list hobs :=
  match ops with
  | [] => []
  | o :: r => let '(recs', ob) := spec_step h recs o in ob :: spec_run h recs' r
  end.

Definition no_crash (o : hop) : Prop := match o with HTorn _ => False | _ => True end.

Lemma firstn_complete h recs tail : wf_header h -> wf_recs h recs -> blen tail < recSize h ->
  firstn (Z.to_nat (hSize h + nFields h (the_file h recs tail) * recSize h)) (the_file h recs tail)
  = the_file h recs [].
Proof.
  intros Hh Hr Ht. pose proof (wf_fSize_nonneg h Hh) as HfS.
  unfold nFields, recSize, the_file in *.
  rewrite (nFields_file_of (hSize h) (fSize h)) by (try assumption; apply header_bytes_len).
  unfold file_of. rewrite app_nil_r, app_assoc. apply firstn_app_exact.
  pose proof (body_len (fSize h) recs HfS Hr) as B. pose proof (header_bytes_len h) as L.
  unfold blen, tSize in *. rewrite app_length. nia.
Qed.

Lemma any_history_gen m h ops : wf_header h -> is0d h = false ->
  (m = Raw -> Forall no_crash ops) ->
  forall recs tail, wf_recs h recs -> blen tail < recSize h -> (m = Raw -> tail = []) ->
  conc_run m h (the_file h recs tail) ops = spec_run h recs ops.
Proof.
  intros Hh H0. induction ops as [|o ops IH]; intros Hm recs tail Hr Ht Hmt; [reflexivity|].
  assert (Hm' : m = Raw -> Forall no_crash ops) by (intros E; specialize (Hm E); inversion Hm; assumption).
  assert (H8 : blen [] < recSize h)
    by (destruct Hh as (_ & Hn & _); pose proof (recSize_ge8 h Hn); rewrite blen_nil; lia).
  destruct (reads_the_file h recs tail Hh Hr Ht) as (R1 & R2 & R3 & R4).
  cbn [conc_run spec_run]. destruct o as [t p|tail'| |idx| |]; cbn [conc_step spec_step].
  - destruct (wf_recb (fSize h) t p) eqn:W.
    + assert (Hw : wf_rec (fSize h) (t, p)) by (unfold wf_recb in W; split; cbn [fst snd]; lia).
      assert (E : addBytes m h (the_file h recs tail) t p = Ok (the_file h (recs ++ [(t, p)]) [])).
      { destruct m.
        - rewrite (Hmt eq_refl). apply add_clean; assumption.
        - unfold the_file. apply aligned_add_after_torn; try assumption.
          + apply wf_fSize_nonneg, Hh.
          + apply header_bytes_len. }
      rewrite E. f_equal. apply IH; try assumption; try reflexivity.
      apply Forall_app. split; [assumption|constructor; [assumption|constructor]].
    + f_equal. apply IH; assumption.
  - destruct m; [specialize (Hm eq_refl); inversion Hm; contradiction|].
    destruct (Z.ltb_spec (blen tail') (recSize h)).
    + rewrite firstn_complete by assumption. f_equal.
      replace (the_file h recs [] ++ tail') with (the_file h recs tail')
        by (unfold the_file, file_of; rewrite !app_nil_r, <- app_assoc; reflexivity).
      apply IH; try assumption. discriminate.
    + f_equal. apply IH; assumption.
  - rewrite R1. f_equal. apply IH; assumption.
  - rewrite (R3 H0). f_equal. apply IH; assumption.
  - rewrite R2. f_equal. apply IH; assumption.
  - rewrite (R4 H0). f_equal. apply IH; assumption.
Qed.

(* (6) ANY interleaving of write / crash / re-open / read on a file created by initialize():
   with the aligned write position every observation is the one the record list predicts *)
Theorem any_history_aligned h ops : wf_header h -> is0d h = false ->
  conc_run Aligned h (header_bytes h) ops = spec_run h [] ops.
Proof.
  intros Hh H0. rewrite <- the_file_nil.
  apply any_history_gen; try assumption; try discriminate; try constructor.
  destruct Hh as (_ & Hn & _). pose proof (recSize_ge8 h Hn). rewrite blen_nil. lia.
Qed.

(* the pinned write position: the same, as long as no append is interrupted *)
Theorem any_history_raw_crash_free h ops : wf_header h -> is0d h = false -> Forall no_crash ops ->
  conc_run Raw h (header_bytes h) ops = spec_run h [] ops.
Proof.
  intros Hh H0 Hc. rewrite <- the_file_nil.
  apply any_history_gen; try assumption; try constructor; auto.
  destruct Hh as (_ & Hn & _). pose proof (recSize_ge8 h Hn). rewrite blen_nil. lia.
Qed.

(* non-vacuity of the hypotheses: a 2-D Rectilinear float32 header with 3 x 2 points *)
Example wf_header_example :
  let h := mkHeader SRect 4 2 [repeat 7 24; repeat 9 16] in
  wf_header h /\ is0d h = false /\ fSize h = 48 /\ hSize h = 58 /\
  conc_run Aligned h (header_bytes h)
    [HAdd (repeat 1 8) (repeat 2 48); HTorn (repeat 3 55); HAdd (repeat 4 8) (repeat 5 48); HRead (-1); HNFields]
  = [OUnit; OUnit; OUnit; ORec (Ok (repeat 4 8, repeat 5 48)); ONum 2].
Proof.
  cbv zeta. split.
  { unfold wf_header, in_range. cbn. repeat split; try lia; repeat constructor; cbn; lia. }
  repeat split; vm_compute; reflexivity.
Qed.
