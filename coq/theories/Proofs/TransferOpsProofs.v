(* C11 — proofs about Model/TransferOps.v *)
From Coq Require Import ZArith QArith Qabs List Bool Lia FinFun Permutation Sorted.
From PySDC Require Import Base.Tactics Base.Dyadic Base.Poly Model.TransferOps.
Import ListNotations.
Open Scope Q_scope.

Definition Qw (w : list dy) : list Q := map D2Q w.

(* ================================================================================================
   0. Polynomial algebra: Taylor shift.  peval (pshift c x h) t == peval c (x + t h), same length.  *)

Fixpoint padd (a b : list Q) : list Q :=
  match a, b with
  | [], _ => b
  | _, [] => a
  | x :: a', y :: b' => (x + y) :: padd a' b'
  end.

Definition pscale (s : Q) (a : list Q) : list Q := map (Qmult s) a.

Fixpoint pshift (c : list Q) (x h : Q) : list Q :=
  match c with
  | [] => []
  | a :: c' => let s := pshift c' x h in padd [a] (padd (pscale x s) (0 :: pscale h s))
  end.

Lemma peval_cons a c t : peval (a :: c) t = a + t * peval c t.
Proof. reflexivity. Qed.

Lemma peval_padd a : forall b t, peval (padd a b) t == peval a t + peval b t.
Proof.
  induction a as [|x a IH]; intros [|y b] t; cbn [padd].
  - cbn; ring.
  - cbn [peval fold_right]; ring.
  - cbn [peval fold_right]; ring.
  - rewrite !peval_cons, IH. ring.
Qed.

Lemma peval_pscale s a t : peval (pscale s a) t == s * peval a t.
Proof.
  induction a as [|x a IH]; cbn [pscale map].
  - cbn; ring.
  - fold (pscale s a). rewrite !peval_cons, IH. ring.
Qed.

Lemma peval_pshift c x h : forall t, peval (pshift c x h) t == peval c (x + t * h).
Proof.
  induction c as [|a c IH]; intros t; cbn [pshift].
  - reflexivity.
  - rewrite peval_padd, peval_padd, peval_cons, peval_pscale, (peval_cons 0), peval_pscale, IH.
    rewrite (peval_cons a c). cbn [peval fold_right]. ring.
Qed.

Lemma length_padd a : forall b, length (padd a b) = Nat.max (length a) (length b).
Proof.
  induction a as [|x a IH]; intros [|y b]; cbn [padd length]; try reflexivity.
  rewrite IH. reflexivity.
Qed.

Lemma length_pshift c x h : length (pshift c x h) = length c.
Proof.
  induction c as [|a c IH]; cbn [pshift]; [reflexivity|].
  rewrite !length_padd. cbn [length]. unfold pscale. rewrite !map_length, IH. lia.
Qed.

Lemma lin_from_ext c : forall k m m', (forall j, m j == m' j) -> lin_from k c m == lin_from k c m'.
Proof.
  induction c as [|a c IH]; intros k m m' H; cbn [lin_from]; [reflexivity|].
  rewrite (H k), (IH (S k) m m' H). reflexivity.
Qed.

Lemma peval_lin_from c x : peval c x == lin_from 0 c (qpow x).
Proof.
  pose proof (wsum_peval [1] [x] c) as H. cbn [wsum] in H.
  setoid_replace (peval c x) with (1 * peval c x + 0) by ring. rewrite H.
  apply lin_from_ext. intro j. unfold moment. cbn [wsum]. ring.
Qed.

(* ================================================================================================
   1. The interpolation-row validator is sound.                                                     *)

Lemma D2Q_imoment w : forall xs k, D2Q (imoment w xs k) == moment (Qw w) (Qw xs) k.
Proof.
  unfold moment, Qw.
  induction w as [|wi w IH]; intros [|xi xs] k; cbn [imoment wsum map]; try reflexivity.
  rewrite D2Q_add, D2Q_mul, D2Q_dpow, IH. reflexivity.
Qed.

(* the tolerance of the k-th moment condition, as a rational *)
Definition row_tol (w xs : list dy) (x rtol atol : dy) (k : nat) : Q := D2Q (row_bound w xs x rtol atol k).

Lemma check_row_moment_sound w xs x rtol atol k :
  check_row_moment w xs x rtol atol k = true ->
  Qabs (moment (Qw w) (Qw xs) k - qpow (D2Q x) k) <= row_tol w xs x rtol atol k.
Proof.
  unfold check_row_moment, row_tol. rewrite dleb_spec, D2Q_abs, D2Q_sub, D2Q_imoment, D2Q_dpow.
  intros H; exact H.
Qed.

(* A row accepted by the validator reproduces EVERY polynomial of degree < number of source points
   at the target abscissa, with the stated bound. *)
Theorem interp_row_sound w xs x rtol atol :
  check_interp_row w xs x rtol atol = true ->
  forall c, (length c <= length xs)%nat ->
  Qabs (wsum (Qw w) (Qw xs) (peval c) - peval c (D2Q x)) <= abs_lin_from 0 c (row_tol w xs x rtol atol).
Proof.
  unfold check_interp_row. intros Hc c Hlen.
  apply andb_prop in Hc as [_ Hall]. rewrite forallb_forall in Hall.
  rewrite wsum_peval, peval_lin_from.
  apply (lin_from_diff_bound c 0%nat _ _ _ (length xs)).
  - intros j Hj. apply check_row_moment_sound. apply Hall. apply in_seq. lia.
  - lia.
Qed.

Lemma wsum_Qw_dZ w os f : (forall a b, a == b -> f a == f b) ->
  wsum w (Qw (map dZ os)) f == wsum w (map inject_Z os) f.
Proof.
  intros Hf. revert os. induction w as [|wi w IH]; intros [|o os]; cbn [wsum map Qw]; try reflexivity.
  fold (Qw (map dZ os)). rewrite IH. rewrite (Hf _ _ (D2Q_dZ o)). reflexivity.
Qed.

(* The same for a row over integer offsets (in units of a mesh width h) around an arbitrary point x:
   for every polynomial (global monomial basis), every x and every h. The bound is expressed in the Taylor
   coefficients  pshift c x h  of the polynomial at x (in units of h). *)
Theorem interp_row_sound_affine w os rtol atol :
  check_interp_row w (map dZ os) d0 rtol atol = true ->
  forall c x h, (length c <= length os)%nat ->
  Qabs (wsum (Qw w) (map (fun o => x + inject_Z o * h) os) (peval c) - peval c x)
  <= abs_lin_from 0 (pshift c x h) (row_tol w (map dZ os) d0 rtol atol).
Proof.
  intros Hc c x h Hlen.
  pose proof (interp_row_sound _ _ _ _ _ Hc (pshift c x h)) as H.
  rewrite length_pshift, map_length in H. specialize (H Hlen).
  assert (E1 : wsum (Qw w) (map (fun o => x + inject_Z o * h) os) (peval c)
               == wsum (Qw w) (Qw (map dZ os)) (peval (pshift c x h))).
  { rewrite wsum_Qw_dZ by (intros a b Hab; apply peval_ext; exact Hab).
    replace (map (fun o : Z => x + inject_Z o * h) os) with (map (fun t => x + t * h) (map inject_Z os))
      by (rewrite map_map; reflexivity).
    rewrite wsum_map. apply wsum_ext. intro t. symmetry. apply peval_pshift. }
  assert (E2 : peval c x == peval (pshift c x h) (D2Q d0)).
  { rewrite peval_pshift. apply peval_ext. rewrite D2Q_d0. ring. }
  rewrite E1, E2. exact H.
Qed.

(* ================================================================================================
   2. Node-set transfer (Pcoll / Rcoll).                                                            *)

Lemma check_node_transfer_row P src dst rtol atol :
  check_node_transfer P src dst rtol atol = true ->
  forall i, (i < length dst)%nat ->
  check_interp_row (nth i P []) src (nth i dst d0) rtol atol = true.
Proof.
  unfold check_node_transfer. intros Hc i Hi.
  apply andb_prop in Hc as [Hl Hall]. apply Nat.eqb_eq in Hl. rewrite forallb_forall in Hall.
  apply (Hall (nth i P [], nth i dst d0)).
  rewrite <- combine_nth by exact Hl. apply nth_In. rewrite combine_length. lia.
Qed.

Theorem node_transfer_sound P src dst rtol atol :
  check_node_transfer P src dst rtol atol = true ->
  forall i, (i < length dst)%nat ->
  forall c, (length c <= length src)%nat ->
  Qabs (wsum (Qw (nth i P [])) (Qw src) (peval c) - peval c (D2Q (nth i dst d0)))
  <= abs_lin_from 0 c (row_tol (nth i P []) src (nth i dst d0) rtol atol).
Proof.
  intros Hc i Hi c Hlen. apply interp_row_sound; [|exact Hlen].
  apply check_node_transfer_row; assumption.
Qed.

Lemma wsum_const_one r : forall s, length r = length s -> wsum (Qw r) (Qw s) (fun _ => 1) == qsum (Qw r).
Proof.
  induction r as [|a r IH]; intros [|b s] E; cbn [length] in E; try discriminate; cbn [wsum Qw map qsum fold_right].
  - reflexivity.
  - fold (Qw r). fold (qsum (Qw r)). fold (Qw s). rewrite IH by lia. ring.
Qed.

(* rows sum to one (constants are transferred exactly) *)
Corollary interp_row_sums_to_one w xs x rtol atol :
  check_interp_row w xs x rtol atol = true -> (0 < length xs)%nat ->
  Qabs (qsum (Qw w) - 1) <= row_tol w xs x rtol atol 0.
Proof.
  intros Hc Hs.
  pose proof (interp_row_sound _ _ _ _ _ Hc [1]) as H. cbn [length] in H. specialize (H ltac:(lia)).
  unfold check_interp_row in Hc. apply andb_prop in Hc as [Hl _]. apply Nat.eqb_eq in Hl.
  cbn [abs_lin_from] in H.
  assert (E1 : wsum (Qw w) (Qw xs) (peval [1]) == qsum (Qw w)).
  { rewrite <- (wsum_const_one w xs Hl). apply wsum_ext. intro t. cbn. ring. }
  rewrite E1 in H.
  setoid_replace (peval [1] (D2Q x)) with 1 in H by (cbn; ring).
  setoid_replace (Qabs 1 * row_tol w xs x rtol atol 0 + 0)
    with (row_tol w xs x rtol atol 0) in H by (change (Qabs 1) with 1; ring).
  exact H.
Qed.

Corollary node_transfer_rows_sum_one P src dst rtol atol :
  check_node_transfer P src dst rtol atol = true ->
  forall i, (i < length dst)%nat -> (0 < length src)%nat ->
  Qabs (qsum (Qw (nth i P [])) - 1) <= row_tol (nth i P []) src (nth i dst d0) rtol atol 0.
Proof.
  intros Hc i Hi Hs. apply interp_row_sums_to_one; [|exact Hs].
  apply check_node_transfer_row; assumption.
Qed.

(* ================================================================================================
   3. Rows of spatial transfer matrices against a support.                                          *)
Open Scope Z_scope.

Lemma zseq_In n : forall lo x, In x (zseq lo n) <-> lo <= x < lo + Z.of_nat n.
Proof.
  induction n as [|n IH]; intros lo x; cbn [zseq In].
  - lia.
  - rewrite IH. lia.
Qed.

Lemma zseq_length n : forall lo, length (zseq lo n) = n.
Proof. induction n as [|n IH]; intros lo; cbn [zseq length]; [reflexivity|]. rewrite IH. reflexivity. Qed.

Lemma zseq_NoDup n : forall lo, NoDup (zseq lo n).
Proof.
  induction n as [|n IH]; intros lo; cbn [zseq]; constructor.
  - rewrite zseq_In. lia.
  - apply IH.
Qed.

Lemma nodupb_NoDup l : nodupb l = true -> NoDup l.
Proof.
  induction l as [|a l IH]; cbn [nodupb]; intros H; constructor.
  - apply andb_prop in H as [H _]. apply negb_true_iff in H.
    intro Hin. assert (existsb (Z.eqb a) l = true) as E.
    { apply existsb_exists. exists a. split; [exact Hin | apply Z.eqb_refl]. }
    congruence.
  - apply IH. apply andb_prop in H as [_ H]. exact H.
Qed.

Open Scope Q_scope.

(* (row . u): the dense row applied to coarse data u given as a function of the column index *)
Fixpoint apply_from (j : Z) (row : list dy) (u : Z -> Q) : Q :=
  match row with
  | [] => 0
  | a :: r => D2Q a * u j + apply_from (j + 1)%Z r u
  end.
Definition apply_row (row : list dy) (u : Z -> Q) : Q := apply_from 0 row u.

Lemma qsum_cons a l : qsum (a :: l) = a + qsum l.
Proof. reflexivity. Qed.

Lemma qsum_app a b : qsum (a ++ b) == qsum a + qsum b.
Proof.
  induction a as [|x a IH]; cbn [app].
  - change (qsum []) with 0. ring.
  - rewrite !qsum_cons, IH. ring.
Qed.

Lemma qsum_zero (f : Z -> Q) l : (forall c, In c l -> f c == 0) -> qsum (map f l) == 0.
Proof.
  induction l as [|a l IH]; intros H; cbn [map]; [reflexivity|].
  rewrite qsum_cons, IH by (intros c Hc; apply H; right; exact Hc). rewrite (H a) by (left; reflexivity). ring.
Qed.

Lemma qsum_ext (f g : Z -> Q) l : (forall c, In c l -> f c == g c) -> qsum (map f l) == qsum (map g l).
Proof.
  induction l as [|a l IH]; intros H; cbn [map]; [reflexivity|].
  rewrite !qsum_cons, IH by (intros c Hc; apply H; right; exact Hc).
  rewrite (H a) by (left; reflexivity). reflexivity.
Qed.

(* a sum over l of a function vanishing outside cols (cols within l, both duplicate-free) is the sum over cols *)
Lemma qsum_support (f : Z -> Q) cols : forall l,
  NoDup cols -> NoDup l -> incl cols l -> (forall c, In c l -> ~ In c cols -> f c == 0) ->
  qsum (map f l) == qsum (map f cols).
Proof.
  induction cols as [|c0 cols IH]; intros l Hc Hl Hin Hz.
  - cbn [map]. change (qsum []) with 0. apply qsum_zero. intros c Hcl. apply Hz; [exact Hcl | intros []].
  - assert (In c0 l) as H0 by (apply Hin; left; reflexivity).
    apply in_split in H0 as [l1 [l2 ->]].
    rewrite map_app, qsum_app. cbn [map]. rewrite !qsum_cons.
    inversion Hc as [|? ? Hn Hc']; subst.
    rewrite <- (IH (l1 ++ l2)).
    + rewrite map_app, qsum_app. ring.
    + exact Hc'.
    + apply NoDup_remove_1 in Hl. exact Hl.
    + intros c Hcc. assert (In c (l1 ++ c0 :: l2)) as H1 by (apply Hin; right; exact Hcc).
      rewrite in_app_iff in *. cbn [In] in H1. destruct H1 as [H1|[H1|H1]]; [left; exact H1 | subst; contradiction | right; exact H1].
    + intros c Hcl Hnc. apply Hz.
      * rewrite in_app_iff in *. cbn [In]. tauto.
      * intros [E|E]; [|exact (Hnc E)]. subst c. apply NoDup_remove_2 in Hl. exact (Hl Hcl).
Qed.

Lemma getcol_cons a r c : (0 <= c)%Z -> getcol (a :: r) (c + 1) = getcol r c.
Proof.
  intros Hc. unfold getcol.
  replace (c + 1 <? 0)%Z with false by (symmetry; apply Z.ltb_ge; lia).
  replace (c <? 0)%Z with false by (symmetry; apply Z.ltb_ge; lia).
  replace (Z.to_nat (c + 1)) with (S (Z.to_nat c)) by lia. reflexivity.
Qed.

Lemma apply_from_qsum row : forall j u,
  apply_from j row u == qsum (map (fun c => D2Q (getcol row (c - j)) * u c) (zseq j (length row))).
Proof.
  induction row as [|a r IH]; intros j u; cbn [apply_from length zseq map]; [reflexivity|].
  rewrite qsum_cons, IH. replace (j - j)%Z with 0%Z by lia.
  change (getcol (a :: r) 0) with a.
  rewrite (qsum_ext (fun c => D2Q (getcol (a :: r) (c - j)) * u c) (fun c => D2Q (getcol r (c - (j + 1))) * u c)); [reflexivity|].
  intros c Hc. apply zseq_In in Hc.
  replace (c - j)%Z with ((c - (j + 1)) + 1)%Z by lia. rewrite getcol_cons by lia. reflexivity.
Qed.

Lemma apply_row_qsum row u :
  apply_row row u == qsum (map (fun c => D2Q (getcol row c) * u c) (zseq 0 (length row))).
Proof.
  unfold apply_row. rewrite apply_from_qsum. apply qsum_ext. intros c _. replace (c - 0)%Z with c by lia. reflexivity.
Qed.

Lemma combine_zseq_In row : forall j c, In c (zseq j (length row)) ->
  In (c, getcol row (c - j)) (combine (zseq j (length row)) row).
Proof.
  induction row as [|a r IH]; intros j c Hc; cbn [length zseq combine In] in *; [contradiction|].
  destruct Hc as [Hc|Hc].
  - left. subst c. replace (j - j)%Z with 0%Z by lia. reflexivity.
  - right. pose proof Hc as Hc'. apply zseq_In in Hc'.
    replace (c - j)%Z with ((c - (j + 1)) + 1)%Z by lia. rewrite getcol_cons by lia. apply IH. exact Hc.
Qed.

Lemma zeros_outside_spec row cols c :
  zeros_outside row cols = true -> In c (zseq 0 (length row)) -> ~ In c cols -> D2Q (getcol row c) == 0.
Proof.
  unfold zeros_outside. rewrite forallb_forall. intros H Hc Hn.
  pose proof (combine_zseq_In row 0 c Hc) as Hin. replace (c - 0)%Z with c in Hin by lia.
  specialize (H _ Hin). cbn [fst snd] in H. apply orb_prop in H as [H|H].
  - exfalso. apply Hn. apply existsb_exists in H as [y [Hy E]]. apply Z.eqb_eq in E. subst y. exact Hy.
  - apply deqb_spec in H. rewrite H. reflexivity.
Qed.

(* the sum over a support list of (column, offset) pairs *)
Lemma wsum_support (row : list dy) (u : Z -> Q) (f : Q -> Q) (pos : Z -> Q) sup :
  (forall col o, In (col, o) sup -> u col == f (pos o)) ->
  qsum (map (fun c => D2Q (getcol row c) * u c) (map fst sup))
  == wsum (Qw (map (getcol row) (map fst sup))) (map pos (map snd sup)) f.
Proof.
  induction sup as [|[col o] sup IH]; intros H; cbn [map fst snd wsum Qw]; [reflexivity|].
  fold (Qw (map (getcol row) (map fst sup))). rewrite qsum_cons.
  rewrite IH by (intros c' o' Hin; apply H; right; exact Hin).
  rewrite (H col o) by (left; reflexivity). reflexivity.
Qed.

Definition sup_tol (sup : list (Z * Z)) (row : list dy) (rtol : dy) : nat -> Q :=
  row_tol (map (getcol row) (map fst sup)) (map dZ (map snd sup)) d0 rtol d0.

(* MAIN THEOREM for spatial rows.  If the validator accepts [row] against the support [sup] then for EVERY
   polynomial p of degree < |sup| (global monomial basis), every point x, every mesh width h and every coarse
   data vector u that agrees with p at the support nodes  x + o h  (and vanishes on exempt columns outside the
   support), the row applied to u yields p(x) up to the stated bound. *)
Theorem sup_row_sound sup exempt row rtol :
  check_sup_row sup exempt row rtol = true ->
  forall c x h (u : Z -> Q), (length c <= length sup)%nat ->
  (forall col o, In (col, o) sup -> u col == peval c (x + inject_Z o * h)) ->
  (forall e, In e exempt -> ~ In e (map fst sup) -> u e == 0) ->
  Qabs (apply_row row u - peval c x) <= abs_lin_from 0 (pshift c x h) (sup_tol sup row rtol).
Proof.
  unfold check_sup_row. intros Hc c x h u Hlen Hu He.
  apply andb_prop in Hc as [Hc Hint]. apply andb_prop in Hc as [Hc Hzero]. apply andb_prop in Hc as [Hnd Hrange].
  apply nodupb_NoDup in Hnd. rewrite forallb_forall in Hrange.
  assert (EA : apply_row row u == qsum (map (fun c => D2Q (getcol row c) * u c) (map fst sup))).
  { rewrite apply_row_qsum. apply qsum_support.
    - exact Hnd.
    - apply zseq_NoDup.
    - intros col Hcol. apply zseq_In. specialize (Hrange _ Hcol). lia.
    - intros col Hcol Hn.
      destruct (in_dec Z.eq_dec col exempt) as [Hex|Hex].
      + rewrite (He col Hex Hn). ring.
      + rewrite (zeros_outside_spec row _ col Hzero Hcol); [ring|].
        rewrite in_app_iff. tauto. }
  rewrite EA.
  rewrite (wsum_support row u (peval c) (fun o => x + inject_Z o * h) sup Hu).
  unfold sup_tol.
  apply interp_row_sound_affine; [exact Hint|]. rewrite map_length. exact Hlen.
Qed.

(* ---- periodic rows ---- *)
Theorem per_row_sound nc k i row rtol :
  check_per_row nc k i row rtol = true ->
  forall c x h (u : Z -> Q), (length c <= length (per_support nc k i))%nat ->
  (forall col o, In (col, o) (per_support nc k i) -> u col == peval c (x + inject_Z o * h)) ->
  Qabs (apply_row row u - peval c x) <= abs_lin_from 0 (pshift c x h) (sup_tol (per_support nc k i) row rtol).
Proof.
  unfold check_per_row. intros Hc c x h u Hlen Hu. apply andb_prop in Hc as [_ Hc].
  apply (sup_row_sound _ [] row rtol Hc c x h u Hlen Hu). intros e [].
Qed.

(* constants are preserved on periodic grids *)
Corollary per_row_constants nc k i row rtol :
  check_per_row nc k i row rtol = true -> (0 < length (per_support nc k i))%nat ->
  forall a, Qabs (apply_row row (fun _ => a) - a) <= Qabs a * sup_tol (per_support nc k i) row rtol 0.
Proof.
  intros Hc Hpos a.
  pose proof (per_row_sound _ _ _ _ _ Hc [a] 0 0 (fun _ => a)) as H. cbn [length] in H.
  specialize (H ltac:(lia)).
  assert (Hu : forall col o : Z, In (col, o) (per_support nc k i) -> a == peval [a] (0 + inject_Z o * 0)).
  { intros. cbn. ring. }
  specialize (H Hu).
  assert (EL : apply_row row (fun _ => a) - a == apply_row row (fun _ => a) - peval [a] 0) by (cbn; ring).
  assert (ER : Qabs a * sup_tol (per_support nc k i) row rtol 0
               == abs_lin_from 0 (pshift [a] 0 0) (sup_tol (per_support nc k i) row rtol)).
  { cbn [pshift padd pscale map abs_lin_from]. setoid_replace (a + 0) with a by ring. ring. }
  rewrite EL, ER. exact H.
Qed.

(* ---- non-periodic rows: homogeneous boundary value ---- *)
Lemma apply_from_app a : forall b j u,
  apply_from j (a ++ b) u == apply_from j a u + apply_from (j + Z.of_nat (length a)) b u.
Proof.
  induction a as [|x a IH]; intros b j u; cbn [app apply_from length].
  - replace (j + Z.of_nat 0)%Z with j by lia. ring.
  - rewrite IH. replace (j + 1 + Z.of_nat (length a))%Z with (j + Z.of_nat (S (length a)))%Z by lia. ring.
Qed.

Lemma apply_from_shift row : forall j u, apply_from (j + 1) row u == apply_from j row (fun c => u (c + 1)%Z).
Proof.
  induction row as [|a r IH]; intros j u; cbn [apply_from]; [reflexivity|]. rewrite IH. reflexivity.
Qed.

Lemma apply_row_pad row (u : Z -> Q) :
  u 0%Z == 0 -> u (Z.of_nat (length row) + 1)%Z == 0 ->
  apply_row (pad_row row) u == apply_row row (fun c => u (c + 1)%Z).
Proof.
  intros H0 H1. unfold apply_row, pad_row. cbn [apply_from].
  rewrite apply_from_app. cbn [apply_from].
  replace (0 + 1 + Z.of_nat (length row))%Z with (Z.of_nat (length row) + 1)%Z by lia.
  rewrite H0, H1, (apply_from_shift row 0). ring.
Qed.

(* Non-periodic grid: padded coarse data ũ (index q = 0 .. nc+1) with homogeneous boundary values
   ũ 0 = ũ (nc+1) = 0 that agrees with a polynomial of degree < k on the support — i.e. a polynomial
   that vanishes at the boundary whenever the boundary point belongs to the support — is interpolated exactly. *)
Theorem dir_row_sound nc k i row rtol :
  check_dir_row nc k i row rtol = true ->
  forall c x h (u : Z -> Q), (length c <= length (dir_support nc k i))%nat ->
  (forall q o, In (q, o) (dir_support nc k i) -> u q == peval c (x + inject_Z o * h)) ->
  u 0%Z == 0 -> u (nc + 1)%Z == 0 ->
  Qabs (apply_row row (fun col => u (col + 1)%Z) - peval c x)
  <= abs_lin_from 0 (pshift c x h) (sup_tol (dir_support nc k i) (pad_row row) rtol).
Proof.
  unfold check_dir_row. intros Hc c x h u Hlen Hu H0 H1.
  apply andb_prop in Hc as [Hc Hs]. apply andb_prop in Hc as [Hl _]. apply Z.eqb_eq in Hl.
  rewrite <- apply_row_pad; [|exact H0|rewrite Hl; exact H1].
  apply (sup_row_sound _ _ _ _ Hs c x h u Hlen Hu).
  intros e [E|[E|[]]] _; subst e; assumption.
Qed.

(* ================================================================================================
   4. The promised supports are the k nearest coarse points.                                        *)
Open Scope Z_scope.

Lemma map_zseq_In {A} (f : Z -> A) lo n y : In y (map f (zseq lo n)) <-> exists j, lo <= j < lo + Z.of_nat n /\ y = f j.
Proof.
  rewrite in_map_iff. split.
  - intros [j [E Hj]]. exists j. apply zseq_In in Hj. split; [exact Hj | symmetry; exact E].
  - intros [j [Hj E]]. exists j. split; [symmetry; exact E | apply zseq_In; exact Hj].
Qed.

Lemma NoDup_map_inj_on {A B} (f : A -> B) l :
  (forall x y, In x l -> In y l -> f x = f y -> x = y) -> NoDup l -> NoDup (map f l).
Proof.
  intros Hinj Hnd. induction Hnd as [|a l Hn Hnd IH]; cbn [map]; constructor.
  - rewrite in_map_iff. intros [y [E Hy]]. apply Hn.
    rewrite (Hinj a y); [exact Hy | left; reflexivity | right; exact Hy | symmetry; exact E].
  - apply IH. intros x y Hx Hy. apply Hinj; right; assumption.
Qed.

Section PeriodicSupport.
  Variables nc k i : Z.
  Hypothesis Hnc : 0 < nc.
  Hypothesis Hk : 0 <= k <= nc.
  Hypothesis Hke : Z.even k = true.
  Hypothesis Hi : 0 <= i < 2 * nc.
  Hypothesis Hodd : Z.even i = false.

  Let r0 := i / 2 - k / 2 + 1.

  Lemma per_support_odd :
    per_support nc k i = map (fun j => ((r0 + j) mod nc, 2 * (r0 + j) - i)) (zseq 0 (Z.to_nat k)).
  Proof. unfold per_support. rewrite Hodd. reflexivity. Qed.

  Lemma per_support_length : Z.of_nat (length (per_support nc k i)) = k.
  Proof. rewrite per_support_odd, map_length, zseq_length. lia. Qed.

  Lemma even_half x : Z.even x = true -> x = 2 * (x / 2).
  Proof. intros H. apply Z.even_spec in H as [y ->]. lia. Qed.
  Lemma odd_half x : Z.even x = false -> x = 2 * (x / 2) + 1.
  Proof.
    intros H. rewrite <- Z.negb_odd in H. apply negb_false_iff in H. apply Z.odd_spec in H as [y ->]. lia.
  Qed.

  (* distinct columns *)
  Lemma per_support_NoDup : NoDup (map fst (per_support nc k i)).
  Proof.
    rewrite per_support_odd, map_map. cbn [fst].
    apply NoDup_map_inj_on; [|apply zseq_NoDup].
    intros x y Hx Hy E. apply zseq_In in Hx. apply zseq_In in Hy.
    (* shift both by a multiple of nc to make them non-negative: use the difference directly *)
    assert (((r0 + x) - (r0 + y)) mod nc = 0) as Hz.
    { rewrite Zminus_mod, E, Z.sub_diag. apply Z.mod_0_l. lia. }
    replace (r0 + x - (r0 + y)) with (x - y) in Hz by lia.
    destruct (Z_le_gt_dec y x) as [Hle|Hgt].
    - rewrite Z.mod_small in Hz by lia. lia.
    - assert ((y - x) mod nc = 0) as Hz'.
      { replace (y - x) with (- (x - y)) by lia. apply Z.mod_opp_l_z; [lia | exact Hz]. }
      rewrite Z.mod_small in Hz' by lia. lia.
  Qed.

  (* every support entry is a periodic image of its column, within distance k-1 of the fine point *)
  Lemma per_support_images col o : In (col, o) (per_support nc k i) ->
    0 <= col < nc /\ Z.abs o <= k - 1 /\ exists m, i + o = 2 * col + m * (2 * nc).
  Proof.
    rewrite per_support_odd, map_zseq_In. intros [j [Hj E]]. apply pair_equal_spec in E as [-> ->].
    pose proof (even_half k Hke) as Ek. pose proof (odd_half i Hodd) as Ei.
    split; [apply Z.mod_pos_bound; lia|]. split.
    - unfold r0. lia.
    - exists ((r0 + j) / nc). pose proof (Z.div_mod (r0 + j) nc ltac:(lia)). nia.
  Qed.

  (* ... and EVERY periodic image of a coarse point within distance k-1 is in the support: whatever is not in the
     support is farther away than everything in it *)
  Lemma per_support_nearest col m : 0 <= col < nc ->
    Z.abs (2 * col + m * (2 * nc) - i) <= k - 1 -> In (col, 2 * col + m * (2 * nc) - i) (per_support nc k i).
  Proof.
    intros Hcol Hd. rewrite per_support_odd, map_zseq_In.
    pose proof (even_half k Hke) as Ek. pose proof (odd_half i Hodd) as Ei.
    exists (col + m * nc - r0). split; [unfold r0; lia|].
    replace (r0 + (col + m * nc - r0)) with (col + m * nc) by lia.
    rewrite Z_mod_plus_full, Z.mod_small by lia. f_equal. lia.
  Qed.
End PeriodicSupport.

Section DirichletSupport.
  Variables nc k i : Z.
  Hypothesis Hnc : 0 < nc.
  Hypothesis Hk : 2 <= k <= nc + 1.
  Hypothesis Hke : Z.even k = true.
  Hypothesis Hi : 0 <= i < 2 * nc + 1.
  Hypothesis Heven : Z.odd i = false.

  Let s := Z.max 0 (Z.min (i / 2 - k / 2 + 1) (nc + 2 - k)).

  Lemma dir_support_even :
    dir_support nc k i = map (fun j => (s + j, 2 * (s + j) - (i + 1))) (zseq 0 (Z.to_nat k)).
  Proof. unfold dir_support. rewrite Heven. reflexivity. Qed.

  Lemma dir_support_length : Z.of_nat (length (dir_support nc k i)) = k.
  Proof. rewrite dir_support_even, map_length, zseq_length. lia. Qed.

  Lemma dir_support_NoDup : NoDup (map fst (dir_support nc k i)).
  Proof.
    rewrite dir_support_even, map_map. cbn [fst].
    apply NoDup_map_inj_on; [|apply zseq_NoDup]. intros x y _ _ E. lia.
  Qed.

  Lemma dir_support_In q o : In (q, o) (dir_support nc k i) <-> s <= q < s + k /\ o = 2 * q - (i + 1).
  Proof.
    rewrite dir_support_even, map_zseq_In. split.
    - intros [j [Hj E]]. apply pair_equal_spec in E as [-> ->]. lia.
    - intros [Hq ->]. exists (q - s). split; [lia|]. f_equal; lia.
  Qed.

  (* the support lies in the padded coarse grid and consists of the k points nearest to the fine point *)
  Lemma dir_support_range q o : In (q, o) (dir_support nc k i) -> 0 <= q <= nc + 1.
  Proof. rewrite dir_support_In. unfold s. lia. Qed.

  Lemma dir_support_nearest q o q' : In (q, o) (dir_support nc k i) ->
    0 <= q' <= nc + 1 -> ~ In (q', 2 * q' - (i + 1)) (dir_support nc k i) ->
    Z.abs o <= Z.abs (2 * q' - (i + 1)).
  Proof.
    rewrite !dir_support_In. intros [Hq ->] Hq' Hn.
    assert (q' < s \/ s + k <= q') as Hout by lia.
    assert (Ek : k = 2 * (k / 2)).
    { apply Z.even_spec in Hke as [y ->]. rewrite Z.mul_comm, Z.div_mul by lia. lia. }
    assert (Ei : i = 2 * (i / 2)).
    { rewrite <- Z.negb_even in Heven. apply negb_false_iff in Heven. apply Z.even_spec in Heven as [y ->].
      rewrite Z.mul_comm, Z.div_mul by lia. lia. }
    unfold s in *. lia.
  Qed.
End DirichletSupport.

(* ================================================================================================
   5. R . P = I                                                                                      *)
Open Scope Q_scope.

Definition dotQ (a u : list Q) : Q := wsum a u (fun t => t).
Definition mvQ (P : list (list dy)) (u : list Q) : list Q := map (fun p => dotQ (Qw p) u) P.
Definition sumabs (u : list Q) : Q := qsum (map Qabs u).

Lemma dot_vscale a p : forall u, dotQ (Qw (vscale a p)) u == D2Q a * dotQ (Qw p) u.
Proof.
  unfold dotQ. induction p as [|x p IH]; intros [|y u]; cbn [vscale map Qw wsum]; try ring.
  fold (vscale a p). fold (Qw (vscale a p)). fold (Qw p). rewrite IH, D2Q_mul. ring.
Qed.

Lemma dot_vadd a : forall b u, length a = length b ->
  dotQ (Qw (vadd a b)) u == dotQ (Qw a) u + dotQ (Qw b) u.
Proof.
  unfold dotQ. induction a as [|x a IH]; intros [|y b] u E; cbn [length] in E; try discriminate; cbn [vadd Qw map wsum].
  - ring.
  - destruct u as [|z u]; cbn [wsum]; [ring|].
    fold (Qw (vadd a b)). fold (Qw a). fold (Qw b). rewrite IH by lia. rewrite D2Q_add. ring.
Qed.

Lemma length_vadd a : forall b, length (vadd a b) = Nat.min (length a) (length b).
Proof. induction a as [|x a IH]; intros [|y b]; cbn [vadd length]; try reflexivity. rewrite IH. reflexivity. Qed.

Lemma length_lincomb r : forall P n, (forall p, In p P -> length p = n) -> length (lincomb r P n) = n.
Proof.
  induction r as [|a r IH]; intros [|p P] n H; cbn [lincomb]; try apply repeat_length.
  rewrite length_vadd. unfold vscale. rewrite map_length, (H p) by (left; reflexivity).
  rewrite IH by (intros q Hq; apply H; right; exact Hq). lia.
Qed.

Lemma dot_repeat0 n : forall u, dotQ (Qw (repeat d0 n)) u == 0.
Proof.
  unfold dotQ. induction n as [|n IH]; intros [|y u]; cbn [repeat Qw map wsum]; try reflexivity.
  fold (Qw (repeat d0 n)). rewrite IH, D2Q_d0. ring.
Qed.

Lemma dot_lincomb r : forall P n u, (forall p, In p P -> length p = n) ->
  dotQ (Qw (lincomb r P n)) u == dotQ (Qw r) (mvQ P u).
Proof.
  induction r as [|a r IH]; intros [|p P] n u H; cbn [lincomb]; try (rewrite dot_repeat0; reflexivity).
  rewrite dot_vadd.
  - rewrite dot_vscale, (IH P n u) by (intros q Hq; apply H; right; exact Hq).
    unfold dotQ at 3. cbn [Qw map mvQ wsum]. fold (Qw r). fold (mvQ P u). unfold dotQ. ring.
  - unfold vscale. rewrite map_length, (H p) by (left; reflexivity).
    rewrite length_lincomb by (intros q Hq; apply H; right; exact Hq). reflexivity.
Qed.

Lemma dot_close L : forall D tol u, 0 <= D2Q tol -> close_rows L D tol = true ->
  Qabs (dotQ (Qw L) u - dotQ (Qw D) u) <= D2Q tol * sumabs u.
Proof.
  unfold close_rows, dotQ, sumabs.
  assert (Hnn : forall tol u, 0 <= D2Q tol -> 0 <= D2Q tol * qsum (map Qabs u)).
  { intros tol u Ht. apply Qmult_le_0_compat; [exact Ht|].
    induction u as [|z u IH]; [apply Qle_refl|]. cbn [map]. rewrite qsum_cons.
    setoid_replace 0 with (0 + 0) by ring. apply Qplus_le_compat; [apply Qabs_nonneg | exact IH]. }
  induction L as [|x L IH]; intros [|y D] tol u Ht H; cbn [length] in H; try (cbn in H; discriminate).
  - cbn [Qw map wsum]. setoid_replace (0 - 0) with 0 by ring. cbn [Qabs Z.abs]. apply Hnn. exact Ht.
  - destruct u as [|z u].
    + cbn [Qw map wsum]. setoid_replace (0 - 0) with 0 by ring. exact (Hnn tol [] Ht).
    + cbn [combine forallb fst snd] in H. apply andb_prop in H as [Hl H]. apply andb_prop in H as [H1 H2].
      apply dleb_spec in H1. rewrite D2Q_abs, D2Q_sub in H1.
      specialize (IH D tol u Ht). cbn [Nat.eqb] in Hl. rewrite Hl in IH. cbn [andb] in IH. specialize (IH H2).
      cbn [Qw map wsum]. fold (Qw L). fold (Qw D). rewrite qsum_cons.
      setoid_replace (D2Q x * z + wsum (Qw L) u (fun t => t) - (D2Q y * z + wsum (Qw D) u (fun t => t)))
        with ((D2Q x - D2Q y) * z + (wsum (Qw L) u (fun t => t) - wsum (Qw D) u (fun t => t))) by ring.
      eapply Qle_trans; [apply Qabs_triangle|].
      setoid_replace (D2Q tol * (Qabs z + qsum (map Qabs u))) with (D2Q tol * Qabs z + D2Q tol * qsum (map Qabs u)) by ring.
      apply Qplus_le_compat; [|exact IH].
      rewrite Qabs_Qmult. apply Qmult_le_compat_r; [exact H1 | apply Qabs_nonneg].
Qed.

Lemma dot_delta n : forall j i u,
  dotQ (Qw (delta_from j i n)) u
  == if (Nat.leb j i && Nat.ltb i (j + n))%bool then nth (i - j) u 0 else 0.
Proof.
  unfold dotQ. induction n as [|n IH]; intros j i u; cbn [delta_from Qw map wsum].
  - destruct (Nat.leb j i && Nat.ltb i (j + 0))%bool eqn:E; [|reflexivity].
    apply andb_prop in E as [E1 E2]. apply Nat.leb_le in E1. apply Nat.ltb_lt in E2. lia.
  - destruct u as [|z u].
    + cbn [wsum]. destruct (_ && _)%bool; [destruct (i - j)%nat|]; reflexivity.
    + cbn [wsum]. fold (Qw (delta_from (S j) i n)). rewrite IH.
      destruct (Nat.eqb j i) eqn:Eji.
      * apply Nat.eqb_eq in Eji. subst j.
        replace (Nat.leb (S i) i) with false by (symmetry; apply Nat.leb_gt; lia).
        replace (Nat.leb i i) with true by (symmetry; apply Nat.leb_le; lia).
        replace (Nat.ltb i (i + S n)) with true by (symmetry; apply Nat.ltb_lt; lia).
        cbn [andb]. replace (i - i)%nat with 0%nat by lia. cbn [nth]. rewrite D2Q_d1. ring.
      * apply Nat.eqb_neq in Eji. rewrite D2Q_d0.
        destruct (Nat.leb (S j) i && Nat.ltb i (S j + n))%bool eqn:E.
        -- apply andb_prop in E as [E1 E2]. apply Nat.leb_le in E1. apply Nat.ltb_lt in E2.
           replace (Nat.leb j i) with true by (symmetry; apply Nat.leb_le; lia).
           replace (Nat.ltb i (j + S n)) with true by (symmetry; apply Nat.ltb_lt; lia).
           cbn [andb]. replace (i - j)%nat with (S (i - S j)) by lia. cbn [nth]. ring.
        -- replace (Nat.leb j i && Nat.ltb i (j + S n))%bool with false; [ring|].
           symmetry. apply andb_false_iff. apply andb_false_iff in E as [E|E].
           ++ left. apply Nat.leb_gt in E. apply Nat.leb_gt. lia.
           ++ apply Nat.ltb_ge in E. right. apply Nat.ltb_ge. lia.
Qed.

(* Restriction after prolongation returns every coarse vector u, entry by entry, up to tol * sum |u_j| *)
Theorem RP_identity R P n tol :
  check_RP R P n tol = true ->
  forall (u : list Q) i, (i < n)%nat ->
  Qabs (dotQ (Qw (nth i R [])) (mvQ P u) - nth i u 0) <= D2Q tol * sumabs u.
Proof.
  unfold check_RP. intros Hc u i Hi.
  apply andb_prop in Hc as [Hc Hrows]. apply andb_prop in Hc as [Hc HR]. apply andb_prop in Hc as [Ht HP].
  apply dleb_spec in Ht. rewrite D2Q_d0 in Ht. apply Nat.eqb_eq in HR.
  rewrite forallb_forall in HP, Hrows.
  assert (HPl : forall p, In p P -> length p = n) by (intros p Hp; apply Nat.eqb_eq; apply HP; exact Hp).
  assert (Hin : In (i, nth i R []) (combine (seq 0 n) R)).
  { replace i with (nth i (seq 0 n) 0%nat) at 1 by (rewrite seq_nth by lia; reflexivity).
    rewrite <- combine_nth by (rewrite seq_length; lia). apply nth_In. rewrite combine_length, seq_length. lia. }
  specialize (Hrows _ Hin). unfold check_RP_row in Hrows. cbn [fst snd] in Hrows.
  apply andb_prop in Hrows as [_ Hclose].
  rewrite <- (dot_lincomb (nth i R []) P n u HPl).
  pose proof (dot_close _ _ _ u Ht Hclose) as H.
  rewrite dot_delta in H.
  replace (Nat.leb 0 i && Nat.ltb i (0 + n))%bool with true in H
    by (symmetry; apply andb_true_iff; split; [apply Nat.leb_le | apply Nat.ltb_lt]; lia).
  replace (i - 0)%nat with i in H by lia. exact H.
Qed.

(* ================================================================================================
   6. The neighbour selection of transfer_helper.py (next_neighbors / next_neighbors_periodic):
      sort by (distance, index), keep the first k, return the indices in increasing order.          *)
Open Scope Z_scope.

Definition lex_lt (a b : Z * Z) : Prop := fst a < fst b \/ (fst a = fst b /\ snd a < snd b).
Definition lex_le (a b : Z * Z) : Prop := fst a < fst b \/ (fst a = fst b /\ snd a <= snd b).

Lemma lex_leb_spec a b : lex_leb a b = true <-> lex_le a b.
Proof. unfold lex_leb, lex_le. destruct a, b; cbn [fst snd]. lia. Qed.

Lemma lex_leb_total a b : lex_leb a b = false -> lex_le b a.
Proof. unfold lex_leb, lex_le. destruct a, b; cbn [fst snd]. lia. Qed.

Lemma lex_le_trans a b c : lex_le a b -> lex_le b c -> lex_le a c.
Proof. unfold lex_le. destruct a, b, c; cbn [fst snd]. lia. Qed.

Lemma insert_lex_perm a l : Permutation (insert_lex a l) (a :: l).
Proof.
  induction l as [|b l IH]; cbn [insert_lex]; [reflexivity|].
  destruct (lex_leb a b); [reflexivity|].
  rewrite IH. apply perm_swap.
Qed.

Lemma sort_lex_perm l : Permutation (sort_lex l) l.
Proof.
  induction l as [|a l IH]; cbn [sort_lex fold_right]; [reflexivity|].
  fold (sort_lex l). rewrite insert_lex_perm, IH. reflexivity.
Qed.

Lemma insert_lex_sorted a l : StronglySorted lex_le l -> StronglySorted lex_le (insert_lex a l).
Proof.
  induction l as [|b l IH]; intros Hs; cbn [insert_lex].
  - constructor; [constructor | constructor].
  - inversion Hs as [|? ? Hs' Hall]; subst.
    destruct (lex_leb a b) eqn:E.
    + constructor; [exact Hs|]. apply lex_leb_spec in E. constructor; [exact E|].
      rewrite Forall_forall in *. intros x Hx. eapply lex_le_trans; [exact E | apply Hall; exact Hx].
    + apply lex_leb_total in E. constructor; [apply IH; exact Hs'|].
      rewrite Forall_forall in *. intros x Hx.
      apply (Permutation_in _ (insert_lex_perm a l)) in Hx. destruct Hx as [<-|Hx]; [exact E | apply Hall; exact Hx].
Qed.

Lemma sort_lex_sorted l : StronglySorted lex_le (sort_lex l).
Proof.
  induction l as [|a l IH]; cbn [sort_lex fold_right]; [constructor|]. apply insert_lex_sorted. exact IH.
Qed.

Lemma In_firstn_In {A} (x : A) k l : In x (firstn k l) -> In x l.
Proof. intros H. rewrite <- (firstn_skipn k l). apply in_or_app. left; exact H. Qed.
Lemma In_skipn_In {A} (x : A) k l : In x (skipn k l) -> In x l.
Proof. intros H. rewrite <- (firstn_skipn k l). apply in_or_app. right; exact H. Qed.

Lemma NoDup_app_l {A} (a b : list A) : NoDup (a ++ b) -> NoDup a.
Proof.
  induction a as [|x a IH]; cbn [app]; intros H; [constructor|].
  inversion H as [|? ? Hn Hd]; subst. constructor; [|apply IH; exact Hd].
  intro Hx. apply Hn. apply in_or_app. left; exact Hx.
Qed.

Lemma sorted_firstn_skipn (l : list (Z * Z)) : StronglySorted lex_le l ->
  forall k a b, In a (firstn k l) -> In b (skipn k l) -> lex_le a b.
Proof.
  induction 1 as [|x l Hs IH Hall]; intros k a b Ha Hb.
  - destruct k; cbn in Ha; contradiction.
  - destruct k as [|k]; cbn [firstn skipn] in *; [contradiction|].
    destruct Ha as [<-|Ha].
    + rewrite Forall_forall in Hall. apply Hall. apply (In_skipn_In _ k); exact Hb.
    + apply (IH k); assumption.
Qed.

Lemma zsort_perm l : Permutation (zsort l) l.
Proof.
  unfold zsort. rewrite (Permutation_map fst (sort_lex_perm _)), map_map. cbn [fst]. rewrite map_id. reflexivity.
Qed.

Lemma combine_dist_In (dist : list Z) : forall j d i,
  In (d, i) (combine dist (zseq j (length dist))) <-> j <= i < j + Z.of_nat (length dist) /\ d = nth (Z.to_nat (i - j)) dist 0.
Proof.
  induction dist as [|x dist IH]; intros j d i; cbn [length zseq combine In].
  - lia.
  - rewrite IH. split.
    + intros [E|[Hr ->]].
      * apply pair_equal_spec in E as [-> ->]. split; [lia|]. replace (i - i) with 0 by lia. reflexivity.
      * split; [lia|]. replace (Z.to_nat (i - j)) with (S (Z.to_nat (i - (j + 1)))) by lia. reflexivity.
    + intros [Hr ->]. destruct (Z.eq_dec i j) as [->|Hne].
      * left. replace (j - j) with 0 by lia. reflexivity.
      * right. split; [lia|]. replace (Z.to_nat (i - j)) with (S (Z.to_nat (i - (j + 1)))) by lia. reflexivity.
Qed.

Lemma combine_snd_NoDup (dist : list Z) : forall j, NoDup (map snd (combine dist (zseq j (length dist)))).
Proof.
  induction dist as [|x dist IH]; intros j; cbn [length zseq combine map snd]; constructor.
  - rewrite in_map_iff. intros [[d i] [E Hin]]. cbn [snd] in E. subst i.
    apply combine_dist_In in Hin. lia.
  - apply IH.
Qed.

(* Specification of the selection: k indices (or all, if there are fewer), pairwise distinct, inside the array,
   and every selected index precedes every unselected one in the (distance, index) order — the selection
   minimises the distance and ties go to the lower index, exactly as Python's stable sort breaks them. *)
Theorem select_nearest_spec dist k :
  let res := select_nearest dist k in
  length res = Nat.min k (length dist) /\ NoDup res /\
  (forall i, In i res -> 0 <= i < Z.of_nat (length dist)) /\
  (forall i j, In i res -> 0 <= j < Z.of_nat (length dist) -> ~ In j res ->
               lex_lt (getz dist i, i) (getz dist j, j)).
Proof.
  cbv zeta. unfold select_nearest.
  set (all := combine dist (zseq 0 (length dist))).
  set (srt := sort_lex all).
  assert (Hperm : Permutation srt all) by apply sort_lex_perm.
  assert (Hres : Permutation (zsort (map snd (firstn k srt))) (map snd (firstn k srt))) by apply zsort_perm.
  assert (Hlen_all : length all = length dist).
  { unfold all. rewrite combine_length, zseq_length. lia. }
  assert (Hnd : NoDup (map snd srt)).
  { eapply Permutation_NoDup; [symmetry; apply Permutation_map; exact Hperm | apply combine_snd_NoDup]. }
  assert (Hsel : forall i, In i (zsort (map snd (firstn k srt))) <-> exists d, In (d, i) (firstn k srt)).
  { intros i. split.
    - intros Hi. apply (Permutation_in _ Hres) in Hi. apply in_map_iff in Hi as [[d i'] [E Hin]]. cbn [snd] in E. subst i'.
      exists d. exact Hin.
    - intros [d Hin]. apply (Permutation_in _ (Permutation_sym Hres)). apply in_map_iff. exists (d, i). split; [reflexivity | exact Hin]. }
  assert (Hall : forall d i, In (d, i) srt <-> 0 <= i < Z.of_nat (length dist) /\ d = getz dist i).
  { intros d i. split.
    - intros Hin. apply (Permutation_in _ Hperm) in Hin. unfold all in Hin. apply combine_dist_In in Hin.
      unfold getz. replace (i - 0) with i in Hin by lia. lia.
    - intros [Hr ->]. apply (Permutation_in _ (Permutation_sym Hperm)). unfold all. apply combine_dist_In.
      unfold getz. replace (i - 0) with i by lia. lia. }
  split; [|split; [|split]].
  - rewrite (Permutation_length Hres), map_length, firstn_length, (Permutation_length Hperm), Hlen_all. reflexivity.
  - eapply Permutation_NoDup; [symmetry; exact Hres|].
    rewrite <- (firstn_skipn k srt), map_app in Hnd. apply NoDup_app_l in Hnd. exact Hnd.
  - intros i H. apply Hsel in H as [d Hin]. apply (In_firstn_In) in Hin. apply Hall in Hin. lia.
  - intros i j Hi Hj Hnj.
    apply Hsel in Hi as [d Hin]. pose proof (In_firstn_In _ _ _ Hin) as Hin'. apply Hall in Hin' as [_ ->].
    assert (Hjs : In (getz dist j, j) srt) by (apply Hall; split; [exact Hj | reflexivity]).
    rewrite <- (firstn_skipn k srt), in_app_iff in Hjs. destruct Hjs as [Hjs|Hjs].
    + exfalso. apply Hnj. apply Hsel. exists (getz dist j). exact Hjs.
    + pose proof (sorted_firstn_skipn srt (sort_lex_sorted all) k _ _ Hin Hjs) as Hle.
      assert (i <> j).
      { intros ->. apply Hnj. apply Hsel. exists (getz dist j). exact Hin. }
      unfold lex_le, lex_lt in *. cbn [fst snd] in *. lia.
Qed.

(* instantiations: the distances the two helpers use *)
Corollary next_neighbors_spec p ps k :
  let res := next_neighbors p ps k in
  length res = Nat.min k (length ps) /\ NoDup res /\
  (forall i, In i res -> 0 <= i < Z.of_nat (length ps)) /\
  (forall i j, In i res -> 0 <= j < Z.of_nat (length ps) -> ~ In j res ->
     Z.abs (getz ps i - p) < Z.abs (getz ps j - p) \/ (Z.abs (getz ps i - p) = Z.abs (getz ps j - p) /\ i < j)).
Proof.
  cbv zeta. unfold next_neighbors.
  pose proof (select_nearest_spec (map (fun t => Z.abs (t - p)) ps) k) as H. cbv zeta in H.
  rewrite map_length in H. destruct H as [H1 [H2 [H3 H4]]]. split; [exact H1|]. split; [exact H2|]. split; [exact H3|].
  - intros i j Hi Hj Hnj. specialize (H4 i j Hi Hj Hnj). unfold lex_lt in H4. cbn [fst snd] in H4.
    assert (Hg : forall t, 0 <= t < Z.of_nat (length ps) -> getz (map (fun t => Z.abs (t - p)) ps) t = Z.abs (getz ps t - p)).
    { intros t Ht. unfold getz. rewrite (nth_indep _ 0 (Z.abs (0 - p))) by (rewrite map_length; lia).
      rewrite (map_nth (fun t => Z.abs (t - p))). reflexivity. }
    rewrite !Hg in H4 by (try assumption; apply H3; assumption). exact H4.
Qed.

Corollary next_neighbors_periodic_spec L p ps k :
  let d t := per_dist L (p mod L) (t - hd 0 ps) in
  let res := next_neighbors_periodic L p ps k in
  length res = Nat.min k (length ps) /\ NoDup res /\
  (forall i, In i res -> 0 <= i < Z.of_nat (length ps)) /\
  (forall i j, In i res -> 0 <= j < Z.of_nat (length ps) -> ~ In j res ->
     d (getz ps i) < d (getz ps j) \/ (d (getz ps i) = d (getz ps j) /\ i < j)).
Proof.
  cbv zeta. unfold next_neighbors_periodic.
  set (f := fun t => per_dist L (p mod L) (t - hd 0 ps)).
  pose proof (select_nearest_spec (map f ps) k) as H. cbv zeta in H.
  rewrite map_length in H. destruct H as [H1 [H2 [H3 H4]]]. split; [exact H1|]. split; [exact H2|]. split; [exact H3|].
  intros i j Hi Hj Hnj. specialize (H4 i j Hi Hj Hnj). unfold lex_lt in H4. cbn [fst snd] in H4.
  assert (Hg : forall t, 0 <= t < Z.of_nat (length ps) -> getz (map f ps) t = f (getz ps t)).
  { intros t Ht. unfold getz. rewrite (nth_indep _ 0 (f 0)) by (rewrite map_length; lia).
    rewrite (map_nth f). reflexivity. }
  rewrite !Hg in H4 by (try assumption; apply H3; assumption). exact H4.
Qed.

(* the non-periodic support, in one statement *)
Lemma dir_support_spec nc k i : 2 <= k <= nc + 1 -> Z.even k = true -> 0 <= i < 2 * nc + 1 -> Z.odd i = false ->
  forall q o q', In (q, o) (dir_support nc k i) ->
  0 <= q <= nc + 1 /\ o = 2 * q - (i + 1) /\
  (0 <= q' <= nc + 1 -> ~ In (q', 2 * q' - (i + 1)) (dir_support nc k i) -> Z.abs o <= Z.abs (2 * q' - (i + 1))).
Proof.
  intros Hk Hke Hi Ho q o q' Hin. split; [|split].
  - exact (dir_support_range nc k i Hk Ho q o Hin).
  - apply (dir_support_In nc k i Hk Ho) in Hin. apply Hin.
  - intros Hq' Hn. exact (dir_support_nearest nc k i Hk Hke Hi Ho q o q' Hin Hq' Hn).
Qed.

(* ================================================================================================
   7. R = c * P^T, entry by entry (TransferMesh: Rspace = restr_factor * Pspace.T)                  *)
Lemma In_combine3_nth (P : list (list dy)) j : (j < length P)%nat ->
  In ((j, j), nth j P []) (combine (combine (seq 0 (length P)) (seq 0 (length P))) P).
Proof.
  intros Hj.
  assert (E : ((j, j), nth j P []) = nth j (combine (combine (seq 0 (length P)) (seq 0 (length P))) P) ((0%nat, 0%nat), [])).
  { rewrite combine_nth by (rewrite combine_length, seq_length; lia).
    rewrite combine_nth by (rewrite !seq_length; reflexivity).
    rewrite seq_nth by lia. reflexivity. }
  rewrite E. apply nth_In. rewrite !combine_length, !seq_length. lia.
Qed.

Theorem scaled_transpose_sound R P c :
  check_scaled_transpose R P c = true ->
  forall i j, (i < length R)%nat -> (j < length P)%nat ->
  (D2Q (nth j (nth i R []) d0) == D2Q c * D2Q (nth i (nth j P []) d0))%Q.
Proof.
  unfold check_scaled_transpose. intros H i j Hi Hj.
  apply andb_prop in H as [H _]. rewrite forallb_forall in H.
  assert (Hin : In (i, nth i R []) (combine (seq 0 (length R)) R)).
  { assert (E : (i, nth i R []) = nth i (combine (seq 0 (length R)) R) (0%nat, [])).
    { rewrite combine_nth by (rewrite seq_length; reflexivity). rewrite seq_nth by lia. reflexivity. }
    rewrite E. apply nth_In. rewrite combine_length, seq_length. lia. }
  specialize (H _ Hin). cbn [fst snd] in H. apply andb_prop in H as [H _]. rewrite forallb_forall in H.
  specialize (H _ (In_combine3_nth P j Hj)). cbn [fst snd] in H.
  apply deqb_spec in H. rewrite H, D2Q_mul. reflexivity.
Qed.
