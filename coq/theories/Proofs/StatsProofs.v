(* C14 — proofs about the statistics model (Model/Stats.v).  See Props/C14.v for the property theorems. *)
From Coq Require Import ZArith QArith List Bool String Lia Permutation Sorted OrderedTypeEx.
From PySDC Require Import Base.Dyadic Model.Stats.
Import ListNotations.
Open Scope Z_scope.

(* ====================================================================== part 1 *)


Lemma oeqb_Z_spec a b : oeqb Z.eqb a b = true <-> a = b.
Proof.
  destruct a, b; simpl; split; intro H; try congruence; try discriminate.
  - apply Z.eqb_eq in H. congruence.
  - inversion H. apply Z.eqb_refl.
Qed.

Lemma oeqb_S_spec a b : oeqb String.eqb a b = true <-> a = b.
Proof.
  destruct a, b; simpl; split; intro H; try congruence; try discriminate.
  - apply String.eqb_eq in H. congruence.
  - inversion H. apply String.eqb_refl.
Qed.

Lemma entry_eqb_spec a b : entry_eqb a b = true <-> a = b.
Proof.
  assert (E : entry_eqb a b =
    oeqb Z.eqb (e_process a) (e_process b) && (oeqb Z.eqb (e_iter a) (e_iter b) && (oeqb Z.eqb (e_num_restarts a) (e_num_restarts b) &&
    (oeqb Z.eqb (e_level a) (e_level b) && (oeqb Z.eqb (e_sweep a) (e_sweep b) && (oeqb Z.eqb (e_process_sweeper a) (e_process_sweeper b) &&
    (oeqb String.eqb (e_type a) (e_type b) && oeqb Z.eqb (e_time a) (e_time b)))))))).
  { unfold entry_eqb. repeat match goal with |- context [if ?c then _ else false] => destruct c; simpl; auto end. }
  rewrite E, !andb_true_iff, !oeqb_Z_spec, oeqb_S_spec.
  destruct a, b; simpl. split.
  - intros [-> [-> [-> [-> [-> [-> [-> ->]]]]]]]. reflexivity.
  - intro H. inversion H. repeat split.
Qed.

Lemma entry_eqb_refl a : entry_eqb a a = true.
Proof. apply entry_eqb_spec. reflexivity. Qed.

Lemma entry_eqb_neq a b : entry_eqb a b = false <-> a <> b.
Proof.
  split.
  - intros H E. apply entry_eqb_spec in E. congruence.
  - intro H. destruct (entry_eqb a b) eqn:E; auto. apply entry_eqb_spec in E. contradiction.
Qed.

(* field-wise reading of fmatch *)
Definition fmatchP {A} (want have : option A) : Prop := forall w, want = Some w -> have = Some w.

Lemma fmatch_Z_spec want have : fmatch Z.eqb want have = true <-> fmatchP want have.
Proof.
  unfold fmatch, fmatchP. destruct want as [w|]; [|split; [intros _ w H; discriminate|reflexivity]].
  destruct have as [h|].
  - rewrite Z.eqb_eq. split; [intros -> w' H; inversion H; reflexivity| intro H; specialize (H w eq_refl); congruence].
  - split; [discriminate| intro H; specialize (H w eq_refl); discriminate].
Qed.

Lemma fmatch_S_spec want have : fmatch String.eqb want have = true <-> fmatchP want have.
Proof.
  unfold fmatch, fmatchP. destruct want as [w|]; [|split; [intros _ w H; discriminate|reflexivity]].
  destruct have as [h|].
  - rewrite String.eqb_eq. split; [intros -> w' H; inversion H; reflexivity| intro H; specialize (H w eq_refl); congruence].
  - split; [discriminate| intro H; specialize (H w eq_refl); discriminate].
Qed.

(* an entry matches keyword arguments iff no unknown keyword was given a value and every given field value
   is the entry's value of that field *)
Definition matchesP (kw : kwargs) (k : entry) : Prop :=
  kw_unknown kw = false /\
  fmatchP (e_process (kw_e kw)) (e_process k) /\ fmatchP (e_process_sweeper (kw_e kw)) (e_process_sweeper k) /\
  fmatchP (e_time (kw_e kw)) (e_time k) /\ fmatchP (e_level (kw_e kw)) (e_level k) /\
  fmatchP (e_iter (kw_e kw)) (e_iter k) /\ fmatchP (e_sweep (kw_e kw)) (e_sweep k) /\
  fmatchP (e_type (kw_e kw)) (e_type k) /\ fmatchP (e_num_restarts (kw_e kw)) (e_num_restarts k).

Lemma matches_spec kw k : matches kw k = true <-> matchesP kw k.
Proof.
  unfold matches, matchesP. rewrite !andb_true_iff, negb_true_iff, !fmatch_Z_spec, fmatch_S_spec. tauto.
Qed.

Theorem filter_exact {V} (kw : kwargs) (d : dict V) k v :
  In (k, v) (filter_plain kw d) <-> In (k, v) d /\ matchesP kw k.
Proof. unfold filter_plain. rewrite filter_In, matches_spec. reflexivity. Qed.

(* ====================================================================== part 2 *)


(* ---------- generic list facts *)
Lemma filter_filter {A} (P Q : A -> bool) l : filter Q (filter P l) = filter (fun a => P a && Q a) l.
Proof.
  induction l as [|a l IH]; simpl; auto.
  destruct (P a) eqn:EP; simpl; [destruct (Q a); simpl; rewrite IH; reflexivity | exact IH].
Qed.

Lemma filter_true {A} (l : list A) : filter (fun _ => true) l = l.
Proof. induction l; simpl; congruence. Qed.

Lemma fold_filter {A X} (P : X -> A -> bool) xs (l : list A) :
  fold_left (fun res x => filter (P x) res) xs l = filter (fun a => forallb (fun x => P x a) xs) l.
Proof.
  revert l. induction xs as [|x xs IH]; intro l; simpl.
  - symmetry. apply filter_true.
  - rewrite IH, filter_filter. reflexivity.
Qed.


Lemma memb_spec k ks : memb k ks = true <-> In k ks.
Proof.
  unfold memb. rewrite existsb_exists. split.
  - intros [x [Hx E]]. apply entry_eqb_spec in E. subst. exact Hx.
  - intro H. exists k. split; auto. apply entry_eqb_refl.
Qed.

Lemma pop_all_filter {V} ks (d : dict V) : pop_all ks d = filter (fun kv => negb (memb (fst kv) ks)) d.
Proof.
  unfold pop_all, dict_pop.
  rewrite (fold_filter (fun k (kv : entry * V) => negb (entry_eqb (fst kv) k))).
  apply filter_ext. intro kv. unfold memb.
  induction ks as [|k ks IH]; simpl; auto. rewrite IH, negb_orb. reflexivity.
Qed.

Lemma keys_filter_plain {V} kw (d : dict V) k :
  In k (keys (filter_plain kw d)) <-> In k (keys d) /\ matches kw k = true.
Proof.
  unfold keys, filter_plain. rewrite !in_map_iff. split.
  - intros [[k' v] [E H]]. simpl in E. subst. apply filter_In in H. simpl in H. split; [exists (k, v); tauto | tauto].
  - intros [[[k' v] [E H]] M]. simpl in E. subst. exists (k, v). split; auto. apply filter_In. auto.
Qed.

(* popping the keys selected from the dictionary itself = dropping the matching entries *)
Lemma pop_matching {V} kw (d : dict V) :
  pop_all (keys (filter_plain kw d)) d = filter (fun kv => negb (matches kw (fst kv))) d.
Proof.
  rewrite pop_all_filter. apply filter_ext_in. intros [k v] H. simpl. f_equal.
  apply eq_true_iff_eq. rewrite memb_spec, keys_filter_plain. unfold keys.
  split; [tauto|]. intro M. split; auto. apply in_map_iff. exists (k, v). auto.
Qed.

Lemma prune2_filter {V} steps (d : dict V) :
  prune2 steps d = filter (fun kv => forallb (fun step => negb (matches (kw_time (e_time step)) (fst kv))) steps) d.
Proof.
  unfold prune2. rewrite <- (fold_filter (fun step (kv : entry * V) => negb (matches (kw_time (e_time step)) (fst kv)))).
  revert d. induction steps as [|s steps IH]; intro d; simpl; auto.
  rewrite pop_matching. apply IH.
Qed.

(* prune_time as one filter whose predicate is computed from the snapshot `now` *)
Definition keep_time {V} (now : dict V) (kv : entry * V) : bool :=
  forallb (fun tn : option string * Z =>
     forallb (fun i => negb (memb (fst kv) (keys (filter_plain (kw_type_nr (fst tn) i) now)))) (zrange (snd tn)))
          (restarts_of now).

Lemma prune_time_filter_aux {V} (now : dict V) rs (d : dict V) :
  fold_left
    (fun res (tn : option string * Z) =>
       fold_left (fun res i => pop_all (keys (filter_plain (kw_type_nr (fst tn) i) now)) res) (zrange (snd tn)) res)
    rs d =
  filter (fun kv => forallb (fun tn : option string * Z =>
     forallb (fun i => negb (memb (fst kv) (keys (filter_plain (kw_type_nr (fst tn) i) now)))) (zrange (snd tn))) rs) d.
Proof.
  rewrite <- (fold_filter (fun (tn : option string * Z) (kv : entry * V) =>
     forallb (fun i => negb (memb (fst kv) (keys (filter_plain (kw_type_nr (fst tn) i) now)))) (zrange (snd tn)))).
  revert d. induction rs as [|tn rs IH]; intro d0; simpl; auto.
  rewrite <- IH. f_equal.
  rewrite <- (fold_filter (fun i (kv : entry * V) => negb (memb (fst kv) (keys (filter_plain (kw_type_nr (fst tn) i) now))))).
  generalize (zrange (snd tn)). intro r. revert d0. induction r as [|i r IHr]; intro d0; simpl; auto.
  rewrite pop_all_filter. apply IHr.
Qed.

Lemma prune_time_filter {V} t (d : dict V) :
  prune_time t d = filter (keep_time (filter_plain (kw_time t) d)) d.
Proof. unfold prune_time, keep_time. apply prune_time_filter_aux. Qed.

(* ====================================================================== part 3 *)


Lemma matches_time t k : matches (kw_time t) k = fmatch Z.eqb t (e_time k).
Proof. unfold matches, kw_time. simpl. rewrite !andb_true_r. reflexivity. Qed.

Lemma matches_type ty k : matches (kw_type ty) k = fmatch String.eqb ty (e_type k).
Proof. unfold matches, kw_type. simpl. rewrite !andb_true_r. reflexivity. Qed.

Lemma matches_type_nr ty i k :
  matches (kw_type_nr ty i) k = fmatch String.eqb ty (e_type k) && fmatch Z.eqb (Some i) (e_num_restarts k).
Proof. unfold matches, kw_type_nr. simpl. reflexivity. Qed.

Lemma zrange_spec n i : In i (zrange n) <-> 0 <= i < n.
Proof.
  unfold zrange. rewrite in_map_iff. split.
  - intros [x [E H]]. apply in_seq in H. lia.
  - intro H. exists (Z.to_nat i). split; [lia|]. apply in_seq. lia.
Qed.

(* ---------- regular dictionaries: what the hooks produce (time, type given; counter a non-negative int) *)
Definition regular_entry (k : entry) : Prop :=
  (exists t, e_time k = Some t) /\ (exists s, e_type k = Some s) /\ (exists r, e_num_restarts k = Some r /\ 0 <= r).
Definition regular {V} (d : dict V) : Prop := forall kv, In kv d -> regular_entry (fst kv).

Lemma regular_filter {V} (P : entry * V -> bool) (d : dict V) : regular d -> regular (filter P d).
Proof. intros H kv Hin. apply filter_In in Hin. apply H. tauto. Qed.

Lemma regular_nr_nonneg k : regular_entry k -> 0 <= nr k.
Proof. intros [_ [_ [r [E H]]]]. unfold nr. rewrite E. exact H. Qed.

(* ---------- the `restarts` dictionary *)
Lemma restarts_upd_in ty r rs ty' n' :
  In (ty', n') (restarts_upd ty r rs) ->
  In (ty', n') rs \/ (ty' = ty /\ (n' = Z.max 0 r \/ exists n, In (ty, n) rs /\ n' = Z.max n r)).
Proof.
  induction rs as [|[ty0 n0] rs IH]; simpl.
  - intros [H|[]]. inversion H. right. auto.
  - destruct (oeqb String.eqb ty0 ty) eqn:E.
    + apply oeqb_S_spec in E. subst ty0. intros [H|H]; [|left; right; exact H].
      inversion H. subst. right. split; auto. right. exists n0. auto.
    + intros [H|H]; [left; left; exact H|]. destruct (IH H) as [H1|[H1 [H2|[n [H2 H3]]]]]; auto.
      right. split; auto. right. exists n. auto.
Qed.

Lemma restarts_upd_mono ty r rs ty' n :
  In (ty', n) rs -> exists n', In (ty', n') (restarts_upd ty r rs) /\ n <= n'.
Proof.
  induction rs as [|[ty0 n0] rs IH]; simpl; [tauto|].
  destruct (oeqb String.eqb ty0 ty) eqn:E.
  - intros [H|H].
    + inversion H. subst. exists (Z.max n r). split; [left; reflexivity|lia].
    + exists n. split; [right; exact H|lia].
  - intros [H|H].
    + exists n. split; [left; exact H|lia].
    + destruct (IH H) as [n' [H1 H2]]. exists n'. split; [right; exact H1|exact H2].
Qed.

Lemma restarts_upd_self ty r rs : exists n', In (ty, n') (restarts_upd ty r rs) /\ r <= n'.
Proof.
  induction rs as [|[ty0 n0] rs IH]; simpl.
  - exists (Z.max 0 r). split; [left; reflexivity|lia].
  - destruct (oeqb String.eqb ty0 ty) eqn:E.
    + apply oeqb_S_spec in E. subst. exists (Z.max n0 r). split; [left; reflexivity|lia].
    + destruct IH as [n' [H1 H2]]. exists n'. split; [right; exact H1|exact H2].
Qed.

Lemma restarts_fold_attained {V} (l seen : dict V) rs0 :
  (forall ty n, In (ty, n) rs0 -> n = 0 \/ exists kv, In kv seen /\ e_type (fst kv) = ty /\ nr (fst kv) = n) ->
  forall ty n, In (ty, n) (fold_left (fun rs kv => restarts_upd (e_type (fst kv)) (nr (fst kv)) rs) l rs0) ->
  n = 0 \/ exists kv, In kv (seen ++ l) /\ e_type (fst kv) = ty /\ nr (fst kv) = n.
Proof.
  revert seen rs0. induction l as [|a l IH]; intros seen rs0 H0 ty n; simpl.
  - rewrite app_nil_r. apply H0.
  - intro H. replace (seen ++ a :: l) with ((seen ++ [a]) ++ l) by (rewrite <- app_assoc; reflexivity).
    eapply IH; [|exact H]. clear H ty n. intros ty n H.
    apply restarts_upd_in in H. destruct H as [H|[-> [H|[n1 [H1 H2]]]]].
    + destruct (H0 _ _ H) as [E|[kv [Hk1 Hk2]]]; auto. right. exists kv. split; auto. apply in_or_app. auto.
    + destruct (Z.max_spec 0 (nr (fst a))) as [[_ E]|[_ E]]; rewrite E in H; auto.
      right. exists a. split; [apply in_or_app; right; left; reflexivity|auto].
    + destruct (Z.max_spec n1 (nr (fst a))) as [[_ E]|[_ E]]; rewrite E in H2.
      * right. exists a. split; [apply in_or_app; right; left; reflexivity|auto].
      * subst n. destruct (H0 _ _ H1) as [E0|[kv [Hk1 Hk2]]]; auto. right. exists kv. split; auto. apply in_or_app. auto.
Qed.

Lemma restarts_fold_covers {V} (l seen : dict V) rs0 :
  (forall kv, In kv seen -> exists n, In (e_type (fst kv), n) rs0 /\ nr (fst kv) <= n) ->
  forall kv, In kv (seen ++ l) ->
  exists n, In (e_type (fst kv), n) (fold_left (fun rs kv => restarts_upd (e_type (fst kv)) (nr (fst kv)) rs) l rs0) /\ nr (fst kv) <= n.
Proof.
  revert seen rs0. induction l as [|a l IH]; intros seen rs0 H0 kv; simpl.
  - rewrite app_nil_r. apply H0.
  - intro H. replace (seen ++ a :: l) with ((seen ++ [a]) ++ l) in H by (rewrite <- app_assoc; reflexivity).
    eapply IH; [|exact H]. clear H kv. intros kv H. apply in_app_or in H. destruct H as [H|[<-|[]]].
    + destruct (H0 _ H) as [n [H1 H2]]. destruct (restarts_upd_mono (e_type (fst a)) (nr (fst a)) _ _ _ H1) as [n' [H3 H4]].
      exists n'. split; auto. lia.
    + apply restarts_upd_self.
Qed.

Lemma restarts_of_attained {V} (now : dict V) ty n :
  In (ty, n) (restarts_of now) -> n = 0 \/ exists kv, In kv now /\ e_type (fst kv) = ty /\ nr (fst kv) = n.
Proof.
  unfold restarts_of. intro H. apply (restarts_fold_attained now [] []) in H; auto. intros ? ? [].
Qed.

Lemma restarts_of_covers {V} (now : dict V) kv :
  In kv now -> exists n, In (e_type (fst kv), n) (restarts_of now) /\ nr (fst kv) <= n.
Proof. intro H. apply (restarts_fold_covers now [] []); auto. intros ? []. Qed.

(* ---------- one time: an entry of the snapshot is dropped iff the snapshot holds an entry of the same type with a larger count *)
Lemma keep_time_outside {V} (now : dict V) kv : ~ In (fst kv) (keys now) -> keep_time now kv = true.
Proof.
  intro H. unfold keep_time. apply forallb_forall. intros tn _. apply forallb_forall. intros i _.
  apply negb_true_iff. destruct (memb (fst kv) _) eqn:E; auto.
  apply memb_spec, keys_filter_plain in E. tauto.
Qed.

Lemma forallb_false {A} (f : A -> bool) l : forallb f l = false <-> exists x, In x l /\ f x = false.
Proof.
  induction l as [|a l IH]; simpl.
  - split; [discriminate|intros [x [[] _]]].
  - rewrite andb_false_iff, IH. split.
    + intros [H|[x [H1 H2]]]; [exists a; auto|exists x; auto].
    + intros [x [[->|H1] H2]]; [left; exact H2|right; exists x; auto].
Qed.

Lemma keep_time_spec {V} (now : dict V) kv :
  regular now -> In kv now ->
  (keep_time now kv = false <->
   exists kv', In kv' now /\ e_type (fst kv') = e_type (fst kv) /\ nr (fst kv) < nr (fst kv')).
Proof.
  intros Hreg Hin. unfold keep_time. rewrite forallb_false. split.
  - intros [[ty n] [Hrs H]]. simpl in H. apply forallb_false in H. destruct H as [i [Hi H]].
    apply negb_false_iff, memb_spec, keys_filter_plain in H. destruct H as [_ H].
    rewrite matches_type_nr in H. apply andb_true_iff in H. destruct H as [Hty Hnr].
    apply zrange_spec in Hi.
    destruct (restarts_of_attained _ _ _ Hrs) as [->|[kv' [Hk1 [Hk2 Hk3]]]]; [lia|].
    exists kv'. split; auto.
    destruct (Hreg _ Hk1) as [_ [[s Hs] _]]. rewrite Hs in Hk2. subst ty.
    simpl in Hty. destruct (e_type (fst kv)) as [s'|] eqn:Es; [|discriminate].
    apply String.eqb_eq in Hty. subst s'. split; [congruence|].
    simpl in Hnr. unfold nr at 1. destruct (e_num_restarts (fst kv)) as [r|]; [|discriminate].
    apply Z.eqb_eq in Hnr. lia.
  - intros [kv' [Hk1 [Hk2 Hk3]]].
    destruct (restarts_of_covers _ _ Hk1) as [n [Hn1 Hn2]].
    exists (e_type (fst kv'), n). split; auto. simpl. apply forallb_false.
    exists (nr (fst kv)). pose proof (regular_nr_nonneg _ (Hreg _ Hin)) as Hnn.
    split; [apply zrange_spec; lia|].
    apply negb_false_iff, memb_spec, keys_filter_plain. split; [apply in_map; exact Hin|].
    rewrite matches_type_nr. destruct (Hreg _ Hin) as [_ [[s Hs] [r [Hr _]]]].
    rewrite Hk2, Hs. unfold nr. rewrite Hr. simpl. rewrite String.eqb_refl, Z.eqb_refl. reflexivity.
Qed.

(* ====================================================================== part 4 *)


Definition dominated {V} (d : dict V) (k : entry) : Prop :=
  exists kv', In kv' d /\ e_time (fst kv') = e_time k /\ e_type (fst kv') = e_type k /\ nr k < nr (fst kv').

Lemma fmatch_Z_some t o : fmatch Z.eqb (Some t) o = true <-> o = Some t.
Proof.
  simpl. destruct o as [h|]; [rewrite Z.eqb_eq|]; split; congruence.
Qed.

Lemma in_now {V} (d : dict V) tau kv :
  In kv (filter_plain (kw_time (Some tau)) d) <-> In kv d /\ e_time (fst kv) = Some tau.
Proof. unfold filter_plain. rewrite filter_In, matches_time, fmatch_Z_some. reflexivity. Qed.

Lemma option_Z_eq_dec (a b : option Z) : {a = b} + {a <> b}.
Proof. decide equality. apply Z.eq_dec. Qed.

Lemma prune_time_spec {V} (d : dict V) tau kv :
  regular d ->
  (In kv (prune_time (Some tau) d) <-> In kv d /\ ~ (e_time (fst kv) = Some tau /\ dominated d (fst kv))).
Proof.
  intro Hreg. rewrite prune_time_filter, filter_In.
  set (now := filter_plain (kw_time (Some tau)) d).
  assert (Hrn : regular now) by (apply regular_filter; exact Hreg).
  split.
  - intros [Hin Hk]. split; auto. intros [Ht [kv' [H1 [H2 [H3 H4]]]]].
    assert (Hnow : In kv now) by (apply in_now; auto).
    assert (keep_time now kv = false); [|congruence].
    apply keep_time_spec; auto. exists kv'. split; [apply in_now; split; auto; congruence|auto].
  - intros [Hin Hnd]. split; auto.
    destruct (oeqb Z.eqb (e_time (fst kv)) (Some tau)) eqn:Et.
    + apply oeqb_Z_spec in Et. assert (Hnow : In kv now) by (apply in_now; auto).
      destruct (keep_time now kv) eqn:Ek; auto. exfalso. apply Hnd. split; auto.
      apply keep_time_spec in Ek; auto. destruct Ek as [kv' [H1 [H2 H3]]].
      apply in_now in H1. exists kv'. split; [tauto|]. split; [|auto]. destruct H1. congruence.
    + apply keep_time_outside. intro Hk. unfold keys in Hk. apply in_map_iff in Hk.
      destruct Hk as [kv2 [E H2]]. apply in_now in H2. rewrite E in H2.
      destruct H2 as [_ H2]. apply oeqb_Z_spec in H2. congruence.
Qed.

(* the loop over times: after processing `ts`, exactly the entries dominated at a processed time are gone *)
Lemma prune_fold_spec {V} ts (d res : dict V) done :
  regular d ->
  (forall kv, In kv res <-> In kv d /\ ~ (In (e_time (fst kv)) done /\ dominated d (fst kv))) ->
  forall kv, In kv (fold_left (fun res t => prune_time t res) (map Some ts) res) <->
             In kv d /\ ~ (In (e_time (fst kv)) (done ++ map Some ts) /\ dominated d (fst kv)).
Proof.
  intro Hreg. revert res done. induction ts as [|tau ts IH]; intros res done Hinv kv; simpl.
  - rewrite app_nil_r. apply Hinv.
  - replace (done ++ Some tau :: map Some ts) with ((done ++ [Some tau]) ++ map Some ts) by (rewrite <- app_assoc; reflexivity).
    apply IH. clear kv. intro kv.
    assert (Hrr : regular res) by (intros x Hx; apply Hreg; apply Hinv in Hx; tauto).
    rewrite prune_time_spec by exact Hrr. rewrite Hinv. split.
    + intros [[Hin Hnd] Hnt]. split; auto. intros [Hd Hdom]. apply in_app_or in Hd. destruct Hd as [Hd|[Hd|[]]]; [tauto|].
      apply Hnt. split; [congruence|]. destruct Hdom as [kv' [H1 [H2 [H3 H4]]]].
      (* is the dominating entry still present? if tau was not yet processed it is; otherwise kv would be gone *)
      destruct (in_dec option_Z_eq_dec (Some tau) done) as [Hp|Hp].
      * exfalso. apply Hnd. split; [congruence|]. exists kv'. auto.
      * exists kv'. split; [|auto]. apply Hinv. split; auto. intros [Hd' _]. apply Hp. congruence.
    + intros [Hin Hnd]. split; [split; auto|].
      * intros [Hd Hdom]. apply Hnd. split; auto. apply in_or_app. auto.
      * intros [Ht [kv' [H1 [H2 [H3 H4]]]]]. apply Hnd. split; [apply in_or_app; right; left; congruence|].
        apply Hinv in H1. exists kv'. tauto.
Qed.

(* ====================================================================== part 5 *)


Lemma uinsert_in x y l : In x (uinsert y l) <-> x = y \/ In x l.
Proof.
  induction l as [|a l IH]; simpl; [intuition|].
  destruct (y <? a) eqn:E1; simpl; [intuition|].
  destruct (y =? a) eqn:E2; simpl.
  - apply Z.eqb_eq in E2. subst. intuition.
  - rewrite IH. intuition.
Qed.

Lemma usort_in x l : In x (usort l) <-> In x l.
Proof. induction l as [|a l IH]; simpl; [tauto|]. rewrite uinsert_in, IH. intuition. Qed.

Lemma times_restarted_regular {V} (d : dict V) :
  regular d ->
  exists ts, times_restarted d = Some (map Some ts) /\
             forall tau, In tau ts <-> exists kv, In kv d /\ 0 < nr (fst kv) /\ e_time (fst kv) = Some tau.
Proof.
  intro Hreg. unfold times_restarted.
  assert (E0 : existsb (fun kv : entry * V => is_none (e_num_restarts (fst kv))) d = false).
  { apply not_true_iff_false. intro H. apply existsb_exists in H. destruct H as [kv [H1 H2]].
    destruct (Hreg _ H1) as [_ [_ [r [Hr _]]]]. rewrite Hr in H2. discriminate. }
  rewrite E0. set (L := map (fun kv : entry * V => e_time (fst kv)) (filter (fun kv => 0 <? nr (fst kv)) d)).
  assert (HL : forall o, In o L <-> exists kv, In kv d /\ 0 < nr (fst kv) /\ e_time (fst kv) = o).
  { intro o. unfold L. rewrite in_map_iff. split.
    - intros [kv [E H]]. apply filter_In in H. destruct H as [H1 H2]. apply Z.ltb_lt in H2. exists kv. auto.
    - intros [kv [H1 [H2 H3]]]. exists kv. split; auto. apply filter_In. split; auto. apply Z.ltb_lt. exact H2. }
  assert (Hsome : forall o, In o L -> exists t, o = Some t).
  { intros o Ho. apply HL in Ho. destruct Ho as [kv [H1 [_ H3]]]. destruct (Hreg _ H1) as [[t Ht] _]. exists t. congruence. }
  assert (Hgen : forall tau, In tau (map unsome L) <-> In (Some tau) L).
  { intro tau. rewrite in_map_iff. split.
    - intros [o [E Ho]]. destruct (Hsome _ Ho) as [t ->]. simpl in E. subst. exact Ho.
    - intro H. exists (Some tau). auto. }
  clearbody L. destruct L as [|x [|y L']].
  - exists []. split; auto. intro tau. rewrite <- HL. simpl. tauto.
  - destruct (Hsome x (or_introl eq_refl)) as [t ->]. exists [t]. split; auto.
    intro tau. rewrite <- HL. simpl. intuition congruence.
  - assert (E1 : existsb is_none (x :: y :: L') = false).
    { apply not_true_iff_false. intro H. apply existsb_exists in H. destruct H as [o [H1 H2]].
      destruct (Hsome _ H1) as [t ->]. discriminate. }
    rewrite E1. exists (usort (map unsome (x :: y :: L'))). split; auto.
    intro tau. rewrite usort_in, Hgen, HL. reflexivity.
Qed.

(* first phase of the pruning on a regular dictionary: exactly the entries that carry the largest restart
   count of their (time, type) group survive; the result is a sub-dictionary in the original order *)
Theorem prune1_spec {V} (d : dict V) :
  regular d ->
  exists r, prune1 d = Some r /\ forall kv, In kv r <-> In kv d /\ ~ dominated d (fst kv).
Proof.
  intro Hreg. destruct (times_restarted_regular d Hreg) as [ts [Ets Hts]].
  unfold prune1. rewrite Ets. eexists. split; [reflexivity|]. intro kv.
  rewrite (prune_fold_spec ts d d [] Hreg) by (intro; simpl; tauto). simpl.
  split; intros [Hin Hn]; split; auto.
  - intro Hd. apply Hn. split; auto. destruct Hd as [kv' [H1 [H2 [H3 H4]]]].
    destruct (Hreg _ H1) as [[t Ht] _]. rewrite <- H2, Ht. apply in_map. apply Hts.
    exists kv'. split; auto. split; auto. pose proof (regular_nr_nonneg _ (Hreg _ Hin)). lia.
  - tauto.
Qed.

Lemma prune_fold_is_filter {V} ts (d : dict V) :
  exists P, fold_left (fun res t => prune_time t res) ts d = filter P d.
Proof.
  revert d. induction ts as [|t ts IH]; intro d; simpl.
  - exists (fun _ => true). symmetry. apply filter_true.
  - rewrite prune_time_filter. destruct (IH (filter (keep_time (filter_plain (kw_time t) d)) d)) as [P HP].
    rewrite HP, filter_filter. eexists. reflexivity.
Qed.

Lemma prune1_is_filter {V} (d r : dict V) : prune1 d = Some r -> exists P, r = filter P d.
Proof.
  unfold prune1. destruct (times_restarted d) as [ts|]; [|discriminate]. intro H. inversion H.
  apply prune_fold_is_filter.
Qed.

(* ====================================================================== part 6 *)


Lemma filter_plain_in {V} (kw : kwargs) (d : dict V) kv :
  In kv (filter_plain kw d) <-> In kv d /\ matchesP kw (fst kv).
Proof. destruct kv. apply filter_exact. Qed.

Lemma in_recomputed {V} (stats : dict V) m :
  In m (filter_plain kw_recomputed stats) <-> In m stats /\ e_type (fst m) = Some recomputed_tag.
Proof.
  unfold filter_plain, kw_recomputed. rewrite filter_In, matches_type. simpl.
  destruct (e_type (fst m)) as [s|]; [rewrite String.eqb_eq|]; intuition congruence.
Qed.

Section Filter.
Context {V : Type} (truthy : V -> bool).

(* t is the time of a truthy '_recomputed' marker that carries the largest restart count among the markers
   recorded at that time *)
Definition marked (stats : dict V) (t : option Z) : Prop :=
  exists m, In m stats /\ e_type (fst m) = Some recomputed_tag /\ truthy (snd m) = true /\ e_time (fst m) = t /\
            ~ dominated (filter_plain kw_recomputed stats) (fst m).

Lemma filter_stats_plain stats kw : filter_stats truthy stats kw None = Some (filter_plain kw stats).
Proof. reflexivity. Qed.

(* the recursive call of the source terminates after one level *)
Lemma filter_stats_markers stats b : filter_stats truthy stats kw_recomputed (Some b) = filter_markers stats.
Proof.
  unfold filter_stats, filter_markers. destruct (prune1 (filter_plain kw_recomputed stats)); reflexivity.
Qed.

Theorem filter_stats_regular_spec stats kw b :
  regular stats ->
  exists r, filter_stats truthy stats kw (Some b) = Some r /\
    (exists P, r = filter P stats) /\
    forall kv, In kv r <->
      In kv stats /\ matchesP kw (fst kv) /\ ~ dominated (filter_plain kw stats) (fst kv) /\
      (kw_is_recomputed kw = false -> ~ marked stats (e_time (fst kv))).
Proof.
  intro Hreg. unfold filter_stats.
  assert (Hr1 : regular (filter_plain kw stats)) by (apply regular_filter; exact Hreg).
  destruct (prune1_spec _ Hr1) as [r1 [E1 S1]]. rewrite E1.
  destruct (prune1_is_filter _ _ E1) as [P1 HP1].
  destruct (kw_is_recomputed kw) eqn:Ek.
  - exists r1. split; auto. split.
    + exists (fun a => matches kw (fst a) && P1 a). rewrite HP1. unfold filter_plain. apply filter_filter.
    + intro kv. rewrite S1, filter_plain_in. intuition discriminate.
  - assert (Hr2 : regular (filter_plain kw_recomputed stats)) by (apply regular_filter; exact Hreg).
    unfold filter_markers. destruct (prune1_spec _ Hr2) as [mk [E2 S2]]. rewrite E2.
    eexists. split; [reflexivity|]. rewrite prune2_filter. split.
    + eexists. rewrite HP1. unfold filter_plain. rewrite !filter_filter. reflexivity.
    + intro kv. rewrite filter_In, S1, filter_plain_in, forallb_forall. split.
      * intros [[[Hin Hm] Hnd] Hall]. split; [|split; [|split]]; auto. intros _ [m [M1 [M2 [M3 [M4 M5]]]]].
        assert (Hk : In (fst m) (keys (filter (fun kv0 => truthy (snd kv0)) mk))).
        { apply in_map. apply filter_In. split; auto. apply S2. split; auto. apply in_recomputed. auto. }
        specialize (Hall _ Hk). rewrite matches_time, M4 in Hall.
        destruct (Hreg _ Hin) as [[t Ht] _]. rewrite Ht in Hall. simpl in Hall. rewrite Z.eqb_refl in Hall. discriminate.
      * intros [Hin [Hm [Hnd Hnm]]]. split; [tauto|]. intros step Hs.
        apply negb_true_iff. apply not_true_iff_false. intro Hmt. apply (Hnm eq_refl).
        unfold keys in Hs. apply in_map_iff in Hs. destruct Hs as [m [Em Hmf]]. subst step.
        apply filter_In in Hmf. destruct Hmf as [Hmk Htr]. apply S2 in Hmk. destruct Hmk as [Hmin Hmnd].
        apply in_recomputed in Hmin. destruct Hmin as [Hmin Hmty].
        exists m. repeat split; auto.
        rewrite matches_time in Hmt. destruct (Hreg _ Hmin) as [[t Ht] _]. rewrite Ht in *.
        apply fmatch_Z_some in Hmt. congruence.
Qed.

(* ---------- accepted records *)

Lemma matches_tt ty t k : matches (kw_tt ty t) k = fmatch Z.eqb t (e_time k) && fmatch String.eqb ty (e_type k).
Proof. unfold matches, kw_tt. simpl. rewrite !andb_true_r. reflexivity. Qed.

Section Accepted.
Variable acc : entry -> bool.      (* the key belongs to a record of an accepted step *)
Variable d : dict V.
Hypothesis Hreg : regular d.
(* hypotheses about the records other than the '_recomputed' markers: *)
(* an accepted record carries the largest restart count recorded for its (time, type) *)
Hypothesis Hmax : forall kv kv', In kv d -> In kv' d -> e_type (fst kv) <> Some recomputed_tag -> acc (fst kv) = true ->
  e_time (fst kv') = e_time (fst kv) -> e_type (fst kv') = e_type (fst kv) -> nr (fst kv') <= nr (fst kv).
(* a superseded record is either outnumbered by an accepted record of its (time, type) or sits at a marked time *)
Hypothesis Hsup : forall kv, In kv d -> e_type (fst kv) <> Some recomputed_tag -> acc (fst kv) = false ->
  (exists kv', In kv' d /\ acc (fst kv') = true /\ e_time (fst kv') = e_time (fst kv) /\ e_type (fst kv') = e_type (fst kv) /\
               nr (fst kv) < nr (fst kv')) \/ marked d (e_time (fst kv)).
(* accepted records do not sit at marked times *)
Hypothesis Hmark : forall kv, In kv d -> e_type (fst kv) <> Some recomputed_tag -> acc (fst kv) = true -> ~ marked d (e_time (fst kv)).

Theorem filter_recomputed_keeps_accepted s t b :
  s <> recomputed_tag ->
  exists r, filter_stats truthy d (kw_tt (Some s) t) (Some b) = Some r /\
    (exists P, r = filter P d) /\
    forall kv, In kv r <-> In kv d /\ matchesP (kw_tt (Some s) t) (fst kv) /\ acc (fst kv) = true.
Proof.
  intro Hty. destruct (filter_stats_regular_spec d (kw_tt (Some s) t) b Hreg) as [r [E [HP S]]].
  exists r. split; auto. split; auto. intro kv. rewrite S.
  assert (Ek : kw_is_recomputed (kw_tt (Some s) t) = false).
  { unfold kw_is_recomputed. simpl. apply not_true_iff_false. intro H. apply String.eqb_eq in H. contradiction. }
  assert (Hnm : forall kv : entry * V, matchesP (kw_tt (Some s) t) (fst kv) -> e_type (fst kv) <> Some recomputed_tag).
  { intros kv0 Hm. apply matches_spec in Hm. rewrite matches_tt in Hm. apply andb_true_iff in Hm. destruct Hm as [_ Hm].
    simpl in Hm. destruct (e_type (fst kv0)); [|discriminate]. apply String.eqb_eq in Hm. congruence. }
  split.
  - intros [Hin [Hm [Hnd Hnmk]]]. split; [exact Hin|split; [exact Hm|]]. destruct (acc (fst kv)) eqn:Ea; auto. exfalso.
    destruct (Hsup _ Hin (Hnm _ Hm) Ea) as [[kv' [H1 [H2 [H3 [H4 H5]]]]]|Hmk]; [|exact (Hnmk Ek Hmk)].
    apply Hnd. exists kv'. split; [|auto]. apply filter_In. split; auto.
    apply matches_spec in Hm. rewrite matches_tt in *. rewrite H3, H4. exact Hm.
  - intros [Hin [Hm Ha]]. split; [exact Hin|split; [exact Hm|split]].
    + intros [kv' [H1 [H2 [H3 H4]]]]. apply filter_In in H1. destruct H1 as [H1 _].
      pose proof (Hmax _ _ Hin H1 (Hnm _ Hm) Ha H2 H3). lia.
    + intros _. apply Hmark; auto.
Qed.
End Accepted.
End Filter.

(* ====================================================================== part 7 *)


Lemma regularb_spec d : regularb d = true -> regular d.
Proof.
  unfold regularb. rewrite forallb_forall. intros H kv Hin. specialize (H _ Hin).
  apply andb_true_iff in H. destruct H as [H H3]. apply andb_true_iff in H. destruct H as [H1 H2].
  unfold regular_entry. destruct (e_time (fst kv)); [|discriminate]. destruct (e_type (fst kv)); [|discriminate].
  destruct (e_num_restarts (fst kv)) as [r|]; [|discriminate]. apply Z.leb_le in H3. split; [eexists; reflexivity|split; [eexists; reflexivity|exists r; auto]].
Qed.

Lemma is_marker_spec k : is_marker k = true <-> e_type k = Some recomputed_tag.
Proof. apply oeqb_S_spec. Qed.

Lemma same_tt_spec a b : same_tt a b = true <-> e_time a = e_time b /\ e_type a = e_type b.
Proof.
  unfold same_tt. destruct (oeqb String.eqb (e_type a) (e_type b)) eqn:E.
  - apply oeqb_S_spec in E. rewrite oeqb_Z_spec. tauto.
  - split; [discriminate|]. intros [_ H]. apply oeqb_S_spec in H. congruence.
Qed.

Lemma markedb_spec d t : markedb d t = true <-> marked ztruthy d t.
Proof.
  unfold markedb, marked. rewrite existsb_exists. split.
  - intros [m [Hin H]]. rewrite !andb_true_iff, negb_true_iff, is_marker_spec, oeqb_Z_spec in H.
    destruct H as [[[H1 H2] H3] H4]. exists m. split; [exact Hin|split; [exact H1|split; [exact H2|split; [exact H3|]]]].
    intros [m' [D1 [D2 [D3 D4]]]]. apply in_recomputed in D1. destruct D1 as [D1 D1'].
    apply not_true_iff_false in H4. apply H4. apply existsb_exists. exists m'. split; auto.
    rewrite !andb_true_iff, is_marker_spec, oeqb_Z_spec, Z.ltb_lt. auto.
  - intros [m [H1 [H2 [H3 [H4 H5]]]]]. exists m. split; auto.
    rewrite !andb_true_iff, negb_true_iff, is_marker_spec, oeqb_Z_spec. repeat split; auto.
    apply not_true_iff_false. intro H. apply existsb_exists in H. destruct H as [m' [D1 D2]].
    rewrite !andb_true_iff, is_marker_spec, oeqb_Z_spec, Z.ltb_lt in D2. destruct D2 as [[D2 D3] D4].
    apply H5. exists m'. split; [apply in_recomputed; auto|]. split; auto. split; [congruence|auto].
Qed.

Lemma not_marker k : e_type k <> Some recomputed_tag -> is_marker k = false.
Proof. intro H. apply not_true_iff_false. rewrite is_marker_spec. exact H. Qed.

Theorem check_accepted_sound acc d :
  check_accepted acc d = true ->
  forall s t b, s <> recomputed_tag ->
  exists r, filter_stats ztruthy d (kw_tt (Some s) t) (Some b) = Some r /\
    (exists P, r = filter P d) /\
    forall kv, In kv r <-> In kv d /\ matchesP (kw_tt (Some s) t) (fst kv) /\ In (fst kv) acc.
Proof.
  unfold check_accepted. rewrite !andb_true_iff, !forallb_forall. intros [[[H0 H1] H2] H3] s t b Hty.
  destruct (filter_recomputed_keeps_accepted ztruthy (fun k => memb k acc) d (regularb_spec _ H0)) with (s := s) (t := t) (b := b)
    as [r [E [HP S]]]; auto.
  - intros kv kv' Hin Hin' Hnm Ha Ht Hy. specialize (H1 _ Hin). rewrite (not_marker _ Hnm), Ha in H1. simpl in H1.
    rewrite forallb_forall in H1. specialize (H1 _ Hin'). apply orb_true_iff in H1. destruct H1 as [H1|H1].
    + apply negb_true_iff in H1. apply not_true_iff_false in H1. exfalso. apply H1. apply same_tt_spec. auto.
    + apply Z.leb_le. exact H1.
  - intros kv Hin Hnm Ha. specialize (H2 _ Hin). rewrite (not_marker _ Hnm), Ha in H2. simpl in H2. apply orb_true_iff in H2. destruct H2 as [H2|H2].
    + left. apply existsb_exists in H2. destruct H2 as [kv' [Hin' H2]].
      rewrite !andb_true_iff, same_tt_spec, Z.ltb_lt in H2. exists kv'. tauto.
    + right. apply markedb_spec. exact H2.
  - intros kv Hin Hnm Ha Hm. specialize (H3 _ Hin). rewrite (not_marker _ Hnm), Ha in H3. simpl in H3. apply negb_true_iff in H3.
    apply markedb_spec in Hm. congruence.
  - exists r. split; auto. split; auto. intro kv. rewrite S, memb_spec. reflexivity.
Qed.

(* ====================================================================== part 8 *)


(* ascending order on sort keys of one kind *)
Definition item_leP (a b : item) : Prop :=
  match a, b with
  | IZ x, IZ y => x <= y
  | IS x, IS y => ~ String_as_OT.lt y x
  | _, _ => False
  end.

Lemma Forall_perm {A} (P : A -> Prop) l l' : Permutation l l' -> Forall P l -> Forall P l'.
Proof. intros H HF. exact (@Permutation_Forall A P l l' H HF). Qed.

Lemma sinsert_perm {V} (x : item * V) l : Permutation (sinsert x l) (x :: l).
Proof.
  induction l as [|y r IH]; simpl; auto.
  destruct (item_ltb (fst y) (fst x)); auto.
  rewrite IH. apply perm_swap.
Qed.

Lemma ssort_perm {V} (l : list (item * V)) : Permutation (ssort l) l.
Proof.
  induction l as [|x l IH]; simpl; auto. rewrite sinsert_perm. auto.
Qed.

Section SortGen.
Context {V : Type}.
Variable P : item -> Prop.
Hypothesis asym : forall a b, P a -> P b -> item_ltb a b = true -> item_ltb b a = false.
Hypothesis le_trans : forall a b c, P a -> P b -> P c ->
  item_ltb b a = false -> item_ltb c b = false -> item_ltb c a = false.
Hypothesis irrefl : forall a, P a -> item_ltb a a = false.

Definition le' (x y : item * V) : Prop := item_ltb (fst y) (fst x) = false.
Definition PV (x : item * V) : Prop := P (fst x).

Lemma sinsert_sorted x l :
  PV x -> Forall PV l -> StronglySorted le' l -> StronglySorted le' (sinsert x l).
Proof.
  intros Px. induction l as [|y r IH]; intros HP Hs; simpl.
  - constructor; constructor.
  - inversion HP as [|? ? Py HPr]. subst. inversion Hs as [|? ? Hsr Hy]. subst.
    destruct (item_ltb (fst y) (fst x)) eqn:E.
    + constructor; [apply IH; auto|].
      apply (Forall_perm _ (x :: r)); [symmetry; apply sinsert_perm|].
      constructor; auto. unfold le'. apply asym; auto.
    + constructor; [exact Hs|]. constructor; [exact E|].
      rewrite Forall_forall in *. intros z Hz. unfold le' in *.
      apply (le_trans (fst x) (fst y) (fst z)); auto. apply HPr; auto.
Qed.

Lemma ssort_sorted l : Forall PV l -> StronglySorted le' (ssort l).
Proof.
  induction l as [|x l IH]; intro HP; simpl; [constructor|].
  inversion HP. subst. apply sinsert_sorted; auto.
  apply (Forall_perm _ (l)); [symmetry; apply ssort_perm|auto].
Qed.

(* stability: the records with one and the same sort key keep their dictionary order *)
Lemma sinsert_stable a x l :
  PV x -> Forall PV l ->
  filter (fun y => item_eqb (fst y) a) (sinsert x l) = filter (fun y => item_eqb (fst y) a) (x :: l).
Proof.
  intros Px. induction l as [|y r IH]; intro HP; simpl; auto.
  inversion HP as [|? ? Py HPr]. subst.
  destruct (item_ltb (fst y) (fst x)) eqn:E; simpl; auto.
  rewrite IH by auto. simpl.
  destruct (item_eqb (fst x) a) eqn:Ex; destruct (item_eqb (fst y) a) eqn:Ey; auto.
  exfalso.
  assert (fst x = fst y).
  { clear - Ex Ey. destruct (fst x), (fst y), a; simpl in *; try discriminate;
      try (apply Z.eqb_eq in Ex; apply Z.eqb_eq in Ey; congruence);
      try (apply String.eqb_eq in Ex; apply String.eqb_eq in Ey; congruence); reflexivity. }
  rewrite H in E. rewrite irrefl in E; auto. discriminate.
Qed.

Lemma ssort_stable a l :
  Forall PV l -> filter (fun y => item_eqb (fst y) a) (ssort l) = filter (fun y => item_eqb (fst y) a) l.
Proof.
  induction l as [|x l IH]; intro HP; simpl; auto. inversion HP. subst.
  rewrite sinsert_stable; auto.
  - simpl. rewrite IH; auto.
  - apply (Forall_perm _ (l)); [symmetry; apply ssort_perm|auto].
Qed.
End SortGen.

Definition isIZ (a : item) : Prop := exists z, a = IZ z.
Definition isIS (a : item) : Prop := exists s, a = IS s.

Lemma str_ltb_lt a b : String.ltb a b = true <-> String_as_OT.lt a b.
Proof.
  unfold String.ltb. rewrite <- String_as_OT.cmp_lt. unfold String_as_OT.cmp.
  destruct (String.compare a b); split; congruence.
Qed.

Lemma str_lt_irrefl a : ~ String_as_OT.lt a a.
Proof. intro H. exact (String_as_OT.lt_not_eq _ _ H eq_refl). Qed.

Lemma str_trichotomy a b : String_as_OT.lt a b \/ a = b \/ String_as_OT.lt b a.
Proof. destruct (String_as_OT.compare a b); auto. Qed.

Lemma Z_asym a b : isIZ a -> isIZ b -> item_ltb a b = true -> item_ltb b a = false.
Proof. intros [x ->] [y ->]. simpl. lia. Qed.
Lemma Z_trans a b c : isIZ a -> isIZ b -> isIZ c -> item_ltb b a = false -> item_ltb c b = false -> item_ltb c a = false.
Proof. intros [x ->] [y ->] [z ->]. simpl. lia. Qed.
Lemma Z_irrefl a : isIZ a -> item_ltb a a = false.
Proof. intros [x ->]. simpl. lia. Qed.

Lemma S_asym a b : isIS a -> isIS b -> item_ltb a b = true -> item_ltb b a = false.
Proof.
  intros [x ->] [y ->]. simpl. intro H. apply str_ltb_lt in H. apply not_true_iff_false. intro H2.
  apply str_ltb_lt in H2. exact (str_lt_irrefl _ (String_as_OT.lt_trans _ _ _ H H2)).
Qed.
Lemma S_trans a b c : isIS a -> isIS b -> isIS c -> item_ltb b a = false -> item_ltb c b = false -> item_ltb c a = false.
Proof.
  intros [x ->] [y ->] [z ->]. simpl. intros H1 H2. apply not_true_iff_false. intro H3.
  apply not_true_iff_false in H1. apply not_true_iff_false in H2. rewrite str_ltb_lt in *.
  destruct (str_trichotomy x y) as [L|[->|L]]; [|tauto|tauto].
  destruct (str_trichotomy y z) as [L2|[->|L2]]; [|tauto|tauto].
  exact (str_lt_irrefl _ (String_as_OT.lt_trans _ _ _ (String_as_OT.lt_trans _ _ _ L L2) H3)).
Qed.
Lemma S_irrefl a : isIS a -> item_ltb a a = false.
Proof. intros [x ->]. simpl. apply not_true_iff_false. rewrite str_ltb_lt. apply str_lt_irrefl. Qed.

Lemma StronglySorted_weaken {A} (Q : A -> Prop) (R R' : A -> A -> Prop) l :
  (forall x y, Q x -> Q y -> R x y -> R' x y) -> Forall Q l -> StronglySorted R l -> StronglySorted R' l.
Proof.
  intros HR. induction l as [|a l IH]; intros HQ Hs; [constructor|].
  inversion HQ. inversion Hs. subst. constructor; auto.
  rewrite Forall_forall in *. intros y Hy. apply HR; auto.
Qed.

Lemma getattr_kind f k :
  getattr f k = INone \/ (f <> F_type /\ isIZ (getattr f k)) \/ (f = F_type /\ isIS (getattr f k)).
Proof.
  destruct f; simpl; unfold oz;
    try (match goal with |- context [match ?o with _ => _ end] => destruct o end;
         [right; left; split; [discriminate|eexists; reflexivity]|left; reflexivity]).
  destruct (e_type k); [right; right; split; [reflexivity|eexists; reflexivity]|left; reflexivity].
Qed.

(* sort_stats: ascending in the chosen key, a permutation of the (key, value) pairs, stable *)
Theorem sort_sorted_perm {V} (d : dict V) f l :
  sort_stats d f = Some l ->
  Permutation l (map (fun kv => (getattr f (fst kv), snd kv)) d) /\
  StronglySorted (fun x y => item_leP (fst x) (fst y)) l /\
  forall a, filter (fun y => item_eqb (fst y) a) l = filter (fun y => item_eqb (fst y) a) (map (fun kv => (getattr f (fst kv), snd kv)) d).
Proof.
  unfold sort_stats. set (items := map (fun kv : entry * V => (getattr f (fst kv), snd kv)) d).
  assert (Hk : forall x, In x items -> fst x = INone \/ (f <> F_type /\ isIZ (fst x)) \/ (f = F_type /\ isIS (fst x))).
  { intros x Hx. unfold items in Hx. apply in_map_iff in Hx. destruct Hx as [kv [<- _]]. simpl. apply getattr_kind. }
  clearbody items. destruct items as [|x [|y r]].
  - intro H. inversion H. repeat split; auto. constructor.
  - intro H. inversion H. repeat split; auto. constructor; constructor.
  - destruct (existsb _ (x :: y :: r)) eqn:E; [discriminate|]. intro H. injection H as <-.
    set (items := x :: y :: r) in *. change (sinsert x (sinsert y (ssort r))) with (ssort items).
    assert (Hnn : forall x, In x items -> fst x <> INone).
    { intros z Hz Hn. apply not_true_iff_false in E. apply E. apply existsb_exists. exists z. split; auto. rewrite Hn. reflexivity. }
    destruct (match f with F_type => true | _ => false end) eqn:Ef.
    + assert (HP : Forall (PV (V := V) isIS) items).
      { apply Forall_forall. intros z Hz. destruct (Hk _ Hz) as [Hn|[[Hf _]|[_ Hs]]]; auto.
        - exfalso. exact (Hnn _ Hz Hn). - destruct f; try discriminate. contradiction. }
      split; [apply ssort_perm|]. split.
      * apply (StronglySorted_weaken (PV isIS) (le' (V := V))).
        -- intros a b [s Ha] [s' Hb]. unfold le', item_leP. rewrite Ha, Hb. simpl. intro Hl. apply not_true_iff_false in Hl.
           rewrite str_ltb_lt in Hl. exact Hl.
        -- apply (Forall_perm _ (items)); [symmetry; apply ssort_perm|auto].
        -- apply (ssort_sorted isIS S_asym S_trans). auto.
      * intro a. apply (ssort_stable isIS S_irrefl). auto.
    + assert (HP : Forall (PV (V := V) isIZ) items).
      { apply Forall_forall. intros z Hz. destruct (Hk _ Hz) as [Hn|[[_ Hs]|[Hf _]]]; auto.
        - exfalso. exact (Hnn _ Hz Hn). - subst f. discriminate. }
      split; [apply ssort_perm|]. split.
      * apply (StronglySorted_weaken (PV isIZ) (le' (V := V))).
        -- intros a b [s Ha] [s' Hb]. unfold le', item_leP. rewrite Ha, Hb. simpl. lia.
        -- apply (Forall_perm _ (items)); [symmetry; apply ssort_perm|auto].
        -- apply (ssort_sorted isIZ Z_asym Z_trans). auto.
      * intro a. apply (ssort_stable isIZ Z_irrefl). auto.
Qed.

(* ====================================================================== part 9 *)


(* ---------- dictionaries *)
Definition wf {V} (d : dict V) : Prop := NoDup (keys d).

Lemma dict_get_set {V} k (v : V) d k' :
  dict_get k' (dict_set k v d) = if entry_eqb k k' then Some v else dict_get k' d.
Proof.
  induction d as [|[k0 v0] r IH]; simpl; auto.
  destruct (entry_eqb k0 k) eqn:E0; simpl.
  - apply entry_eqb_spec in E0. subst k0. destruct (entry_eqb k k'); reflexivity.
  - rewrite IH. destruct (entry_eqb k0 k') eqn:E1; destruct (entry_eqb k k') eqn:E2; auto.
    apply entry_eqb_spec in E1. apply entry_eqb_spec in E2. subst. rewrite entry_eqb_refl in E0. discriminate.
Qed.

Lemma keys_dict_set {V} k (v : V) d k' : In k' (keys (dict_set k v d)) <-> k' = k \/ In k' (keys d).
Proof.
  induction d as [|[k0 v0] r IH]; simpl; [intuition|].
  destruct (entry_eqb k0 k) eqn:E0; simpl.
  - apply entry_eqb_spec in E0. subst. intuition.
  - rewrite IH. intuition.
Qed.

Lemma dict_set_wf {V} k (v : V) d : wf d -> wf (dict_set k v d).
Proof.
  unfold wf. induction d as [|[k0 v0] r IH]; simpl; intro H.
  - constructor; [intros []|constructor].
  - inversion H. subst. destruct (entry_eqb k0 k) eqn:E0; simpl.
    + constructor; auto.
    + constructor; [|auto]. intro Hin. apply (keys_dict_set k v r k0) in Hin. destruct Hin as [->|Hin]; [|contradiction].
      rewrite entry_eqb_refl in E0. discriminate.
Qed.

Lemma dict_get_in {V} (d : dict V) k v : wf d -> (In (k, v) d <-> dict_get k d = Some v).
Proof.
  unfold wf. induction d as [|[k0 v0] r IH]; simpl; intro H.
  - split; [tauto|discriminate].
  - inversion H. subst. destruct (entry_eqb k0 k) eqn:E0.
    + apply entry_eqb_spec in E0. subst. split.
      * intros [E|Hin]; [inversion E; reflexivity|]. exfalso. apply H2. apply in_map_iff. exists (k, v). auto.
      * intro E. inversion E. auto.
    + rewrite <- IH by auto. split; [|tauto]. intros [E|Hin]; auto. inversion E. subst. rewrite entry_eqb_refl in E0. discriminate.
Qed.

Lemma dict_get_none {V} (d : dict V) k : dict_get k d = None <-> ~ In k (keys d).
Proof.
  induction d as [|[k0 v0] r IH]; simpl; [tauto|].
  destruct (entry_eqb k0 k) eqn:E0.
  - apply entry_eqb_spec in E0. subst. split; [discriminate|tauto].
  - rewrite IH. apply entry_eqb_neq in E0. tauto.
Qed.

(* {**a, **b}: b wins *)
Lemma dict_update_get {V} (a b : dict V) k :
  wf b -> dict_get k (dict_update a b) = match dict_get k b with Some v => Some v | None => dict_get k a end.
Proof.
  unfold dict_update, wf. revert a. induction b as [|[k0 v0] r IH]; intros a H; simpl; auto.
  inversion H. subst. rewrite IH by auto. destruct (entry_eqb k0 k) eqn:E0.
  - apply entry_eqb_spec in E0. subst. destruct (dict_get k r) eqn:E1.
    + exfalso. assert (dict_get k r <> None) by congruence. rewrite dict_get_none in H0. tauto.
    + rewrite dict_get_set, entry_eqb_refl. reflexivity.
  - destruct (dict_get k r); auto. rewrite dict_get_set, E0. reflexivity.
Qed.

Lemma dict_update_wf {V} (a b : dict V) : wf a -> wf (dict_update a b).
Proof.
  unfold dict_update. revert a. induction b as [|[k0 v0] r IH]; intros a H; simpl; auto.
  apply IH. apply dict_set_wf. exact H.
Qed.

(* ---------- hooks *)
(* the key written by add_to_stats carries the counter of the latest refresh, whatever the caller passed *)
Theorem add_to_stats_key {V} k (v : V) h r k' :
  let h1 := add_to_stats k v (hook_refresh (Some r) h) in
  dict_get k' (h_stats h1) = if entry_eqb (with_nr k r) k' then Some v else dict_get k' (h_stats h).
Proof. simpl. apply dict_get_set. Qed.

(* without a refresh (LogWork.post_step) the key carries whatever counter the previous callback left *)
Theorem add_to_stats_stale {V} k (v : V) h :
  dict_get (with_nr k (h_nr h)) (h_stats (add_to_stats k v h)) = Some v.
Proof. unfold add_to_stats. simpl. rewrite dict_get_set, entry_eqb_refl. reflexivity. Qed.

Lemma add_to_stats_wf {V} k (v : V) h : wf (h_stats h) -> wf (h_stats (add_to_stats k v h)).
Proof. apply dict_set_wf. Qed.

Lemma increment_stats_wf {V} f k (v : V) i h : wf (h_stats h) -> wf (h_stats (increment_stats f k v i h)).
Proof.
  intro H. unfold increment_stats. simpl. destruct (dict_get _ _); [|destruct i]; apply dict_set_wf; exact H.
Qed.

Theorem increment_stats_get {V} f k (v : V) i h :
  dict_get (with_nr k (h_nr h)) (h_stats (increment_stats f k v i h)) =
  Some (match dict_get (with_nr k (h_nr h)) (h_stats h) with
        | Some old => f old v
        | None => match i with Some x => x | None => v end
        end).
Proof.
  unfold increment_stats. simpl. destruct (dict_get _ (h_stats h)); [|destruct i]; rewrite dict_get_set, entry_eqb_refl; reflexivity.
Qed.

(* merge of the hooks' dictionaries: the last hook that holds a key provides its value; nothing is lost *)
Lemma return_stats_fold {V} (hooks : list (hook V)) acc k :
  Forall (fun h => wf (h_stats h)) hooks ->
  dict_get k (fold_left (fun acc h => dict_update acc (h_stats h)) hooks acc) =
  fold_left (fun o h => match dict_get k (h_stats h) with Some v => Some v | None => o end) hooks (dict_get k acc).
Proof.
  revert acc. induction hooks as [|h hs IH]; intros acc H; simpl; auto.
  inversion H. subst. rewrite IH by auto. rewrite dict_update_get by auto. reflexivity.
Qed.

Theorem return_stats_last_wins {V} (pre post : list (hook V)) h k v :
  Forall (fun h => wf (h_stats h)) (pre ++ h :: post) ->
  dict_get k (h_stats h) = Some v ->
  (forall h', In h' post -> dict_get k (h_stats h') = None) ->
  dict_get k (return_stats (pre ++ h :: post)) = Some v.
Proof.
  intros Hwf Hk Hpost. unfold return_stats. rewrite return_stats_fold by auto.
  rewrite fold_left_app. simpl. rewrite Hk.
  clear Hwf. induction post as [|p ps IH]; simpl; auto.
  rewrite (Hpost p (or_introl eq_refl)). apply IH. intros h' Hin. apply Hpost. right. exact Hin.
Qed.

Lemma return_stats_wf {V} (hooks : list (hook V)) : wf (return_stats hooks).
Proof.
  unfold return_stats. assert (H : wf (@nil (entry * V))) by constructor.
  revert H. generalize (@nil (entry * V)). induction hooks as [|h hs IH]; intros acc H; simpl; auto.
  apply IH. apply dict_update_wf. exact H.
Qed.

(* ---------- DefaultHooks.post_step: one 'niter' record per step, keyed by slot, start time, iteration, sweep, restart count *)

Lemma type_neq_key a b : e_type a <> e_type b -> entry_eqb a b = false.
Proof. intro H. apply entry_eqb_neq. congruence. Qed.

Lemma default_post_step_niter s h k :
  e_type k = Some "niter"%string ->
  dict_get k (h_stats (default_post_step s h)) = if entry_eqb (niter_key s) k then Some (sv_iter s) else dict_get k (h_stats h).
Proof.
  intro Hk. unfold default_post_step, add_to_stats, hook_refresh. simpl.
  rewrite !dict_get_set.
  rewrite (type_neq_key (with_nr (Entry m1 m1 (Some (sv_tend s)) m1 m1 m1 (Some recomputed_tag) None) (sv_nr s)) k) by (simpl; rewrite Hk; discriminate).
  rewrite (type_neq_key (with_nr (Entry m1 m1 (Some (sv_time s)) m1 m1 m1 (Some recomputed_tag) None) (sv_nr s)) k) by (simpl; rewrite Hk; discriminate).
  rewrite (type_neq_key (with_nr (Entry (Some (sv_slot s)) (sv_rank s) (Some (sv_time s)) (Some (sv_level s)) m1 (Some (sv_sweep s)) (Some "residual_post_step"%string) None) (sv_nr s)) k) by (simpl; rewrite Hk; discriminate).
  reflexivity.
Qed.

Lemma default_post_step_wf s h : wf (h_stats h) -> wf (h_stats (default_post_step s h)).
Proof. intro H. unfold default_post_step. repeat apply add_to_stats_wf. exact H. Qed.

Lemma default_post_step_keys s h k :
  In k (keys (h_stats (default_post_step s h))) -> e_type k = Some "niter"%string -> k = niter_key s \/ In k (keys (h_stats h)).
Proof.
  unfold default_post_step, add_to_stats, hook_refresh. simpl. intros H Hk.
  repeat (apply keys_dict_set in H; destruct H as [H|H]; [try (subst k; simpl in Hk; discriminate)|]); auto.
Qed.

Lemma default_run_wf svs : wf (h_stats (default_run svs)).
Proof.
  unfold default_run. assert (H : wf (h_stats (@hook_init Z))) by constructor.
  revert H. generalize (@hook_init Z). induction svs as [|s svs IH]; intros h H; simpl; auto.
  apply IH. apply default_post_step_wf. exact H.
Qed.

(* keys of different steps differ as soon as the start times differ *)
Theorem key_injective s s' : niter_key s = niter_key s' ->
  sv_slot s = sv_slot s' /\ sv_time s = sv_time s' /\ sv_iter s = sv_iter s' /\ sv_sweep s = sv_sweep s' /\ sv_nr s = sv_nr s'.
Proof. unfold niter_key. intro H. inversion H. auto. Qed.

Lemma increasing_times_nodup svs :
  StronglySorted (fun a b => sv_time a < sv_time b) svs -> NoDup (map niter_key svs).
Proof.
  induction svs as [|s svs IH]; intro H; simpl; [constructor|].
  inversion H. subst. constructor; auto. intro Hin. apply in_map_iff in Hin. destruct Hin as [s' [E Hs']].
  apply key_injective in E. rewrite Forall_forall in H3. specialize (H3 _ Hs'). lia.
Qed.

Lemma default_run_get svs h k :
  e_type k = Some "niter"%string -> NoDup (map niter_key svs) ->
  forall s, In s svs -> niter_key s = k ->
  dict_get k (h_stats (fold_left (fun h s => default_post_step s h) svs h)) = Some (sv_iter s).
Proof.
  intros Hk. revert h. induction svs as [|a svs IH]; intros h Hnd s Hin E; [destruct Hin|].
  simpl. inversion Hnd. subst. destruct Hin as [->|Hin].
  - (* s is processed now and never overwritten *)
    clear IH. assert (Hno : forall s', In s' svs -> niter_key s' <> niter_key s).
    { intros s' Hs' E'. apply H1. rewrite <- E'. apply in_map. exact Hs'. }
    assert (G : dict_get (niter_key s) (h_stats (default_post_step s h)) = Some (sv_iter s)).
    { rewrite default_post_step_niter by exact Hk. rewrite entry_eqb_refl. reflexivity. }
    revert G. generalize (default_post_step s h). clear H1 H2 Hnd h.
    induction svs as [|b svs IH]; intros h G; simpl; auto.
    apply IH; [intros; apply Hno; right; auto|].
    rewrite default_post_step_niter by exact Hk.
    destruct (entry_eqb (niter_key b) (niter_key s)) eqn:Eb; auto.
    apply entry_eqb_spec in Eb. exfalso. exact (Hno b (or_introl eq_refl) Eb).
  - apply IH; auto.
Qed.

Lemma default_run_keys svs h k :
  In k (keys (h_stats (fold_left (fun h s => default_post_step s h) svs h))) -> e_type k = Some "niter"%string ->
  In k (map niter_key svs) \/ In k (keys (h_stats h)).
Proof.
  revert h. induction svs as [|a svs IH]; intros h H Hk; simpl in *; auto.
  destruct (IH _ H Hk) as [H1|H1]; auto. destruct (default_post_step_keys _ _ _ H1 Hk); auto.
Qed.

(* every step whose key is not reused contributes exactly one 'niter' record: the 'niter' keys of the stats are
   exactly the step keys (as a set without repetition), each holding the iteration count of its step *)
Theorem one_record_per_step svs :
  NoDup (map niter_key svs) ->
  let stats := h_stats (default_run svs) in
  wf stats /\
  Permutation (keys (filter_plain (kw_type (Some "niter"%string)) stats)) (map niter_key svs) /\
  forall s, In s svs -> In (niter_key s, sv_iter s) stats.
Proof.
  intros Hnd stats. assert (Hwf : wf stats) by apply default_run_wf.
  assert (Hget : forall s, In s svs -> In (niter_key s, sv_iter s) stats).
  { intros s Hs. apply dict_get_in; auto. unfold stats, default_run. eapply default_run_get; eauto. }
  split; auto. split; auto.
  apply NoDup_Permutation; auto.
  - unfold keys, filter_plain. clear Hget. unfold wf, keys in Hwf. induction stats as [|[k v] r IH]; simpl; [constructor|].
    inversion Hwf. subst. destruct (matches _ k); simpl; auto. constructor; auto.
    intro Hin. apply H1. apply in_map_iff in Hin. destruct Hin as [kv [E Hin]]. apply filter_In in Hin.
    apply in_map_iff. exists kv. tauto.
  - intro k. rewrite keys_filter_plain. split.
    + intros [Hin Hm]. assert (Hk : e_type k = Some "niter"%string).
      { unfold matches, kw_type in Hm. simpl in Hm. rewrite !andb_true_r in Hm.
        destruct (e_type k); [|discriminate]. apply String.eqb_eq in Hm. congruence. }
      destruct (default_run_keys svs hook_init k Hin Hk) as [H|[]]. exact H.
    + intro Hin. apply in_map_iff in Hin. destruct Hin as [s [<- Hs]]. split.
      * apply in_map_iff. exists (niter_key s, sv_iter s). auto.
      * reflexivity.
Qed.

(* ====================================================================== part 10 *)


(* ---------- the integer image of float times is exact *)
Lemma tz_D2Q m e : -1074 <= e -> (D2Q (Dy m e) == inject_Z (tz m e) * 2 ^ (-1074))%Q.
Proof.
  intro H. unfold tz, D2Q. simpl dm. simpl de. rewrite shift_Q by lia.
  replace (-1074 + (e + 1074)) with e by lia. reflexivity.
Qed.

Theorem tz_order m1 e1 m2 e2 : -1074 <= e1 -> -1074 <= e2 ->
  (tz m1 e1 <= tz m2 e2 <-> (D2Q (Dy m1 e1) <= D2Q (Dy m2 e2))%Q).
Proof. intros H1 H2. rewrite !tz_D2Q by assumption. apply inject_Z_le_pow. Qed.

Theorem tz_eq m1 e1 m2 e2 : -1074 <= e1 -> -1074 <= e2 ->
  (tz m1 e1 = tz m2 e2 <-> (D2Q (Dy m1 e1) == D2Q (Dy m2 e2))%Q).
Proof.
  intros H1 H2. split.
  - intro E. rewrite !tz_D2Q by assumption. rewrite E. reflexivity.
  - intro E. apply Z.le_antisymm; apply tz_order; auto; rewrite E; apply Qle_refl.
Qed.

(* ---------- restart counters between blocks *)
Theorem prepare_snapshot_spec flags cnt s :
  (s < List.length flags)%nat ->
  nth s (prepare_snapshot flags cnt) 0 =
  if (s + restart_from flags <? List.length flags)%nat
  then (if nth (s + restart_from flags) flags false then nth (s + restart_from flags) cnt 0 + 1 else 0) else 0.
Proof.
  intro H. unfold prepare_snapshot.
  set (f := fun s0 : nat => _).
  rewrite (nth_indep _ 0 (f 0%nat)) by (rewrite map_length, seq_length; exact H).
  rewrite map_nth, seq_nth by exact H. reflexivity.
Qed.

Lemma prepare_snapshot_length flags cnt : List.length (prepare_snapshot flags cnt) = List.length flags.
Proof. unfold prepare_snapshot. rewrite map_length, seq_length. reflexivity. Qed.

(* the sequential in-place update of the source is NOT the snapshot update: three steps, the last two restart
   after two restarts each -> the source leaves 1/3/2 where every restarted step should carry 3 and the new
   last step 0 (this is the history of the reproduced run) *)
Theorem prepare_seq_aliasing_refuted :
  exists flags cnt, prepare_seq flags cnt <> prepare_snapshot flags cnt /\
                    prepare_seq flags cnt = [1; 3; 2] /\ prepare_snapshot flags cnt = [3; 3; 0].
Proof. exists [false; true; true], [2; 2; 2]. vm_compute. repeat split; congruence. Qed.

(* with one step per block both agree *)
Lemma prepare_seq_single b c : prepare_seq [b] [c] = prepare_snapshot [b] [c].
Proof. destruct b; reflexivity. Qed.

(* ---------- the reproduced history: 3 steps per block; times scaled to integers *)
Definition sv (slot t dt : Z) (restart : bool) (r : Z) : step_view :=
  SV slot (Some 0) t (t + dt) 0 3 1 restart (Some r) 0.

Definition history (c4 : Z * Z * Z) : list step_view :=
  let '(a, b, c) := c4 in
  [ sv 0 0 20 true 0; sv 1 20 20 true 0; sv 2 40 20 true 0;
    sv 0 0 5 true 1;  sv 1 5 5 true 1;   sv 2 10 5 true 1;
    sv 0 0 3 false 2; sv 1 3 3 true 2;   sv 2 6 3 true 2;
    sv 0 3 2 false a; sv 1 5 2 false b;  sv 2 7 2 false c ].

Definition accepted_keys (svs : list step_view) : list entry :=
  flat_map (fun s => if sv_restart s then [] else
     [niter_key s;
      Entry m1 m1 (Some (sv_time s)) m1 m1 m1 (Some recomputed_tag) (sv_nr s);
      Entry m1 m1 (Some (sv_tend s)) m1 m1 m1 (Some recomputed_tag) (sv_nr s);
      Entry (Some (sv_slot s)) (sv_rank s) (Some (sv_time s)) (Some (sv_level s)) m1 (Some (sv_sweep s)) (Some "residual_post_step"%string) (sv_nr s)]) svs.

Definition kw_niter := kw_tt (Some "niter"%string) None.

(* counters as the source computes them (1/3/2): the accepted step starting at t = 3 is dropped *)
Theorem filter_recomputed_drops_accepted_refuted :
  let svs := history (1, 3, 2) in
  let stats := h_stats (default_run svs) in
  let k := niter_key (sv 0 3 2 false 1) in
  In k (accepted_keys svs) /\ In (k, 3) stats /\
  exists r, filter_stats ztruthy stats kw_niter (Some false) = Some r /\ ~ In k (keys r) /\
            List.length r = 3%nat /\ List.length (filter (fun s => negb (sv_restart s)) svs) = 4%nat.
Proof.
  cbv zeta. split; [vm_compute; tauto|]. split; [vm_compute; tauto|].
  eexists. split; [vm_compute; reflexivity|]. split; [|split; reflexivity].
  vm_compute. intuition discriminate.
Qed.

(* with the snapshot counters (3/3/0) the validator accepts, hence (check_accepted_sound) the filter returns
   exactly the accepted records: the hypotheses of the theorem are satisfiable on a history with repeated
   restarts of the same step and a restart at a later slot *)
Example check_accepted_instance :
  let svs := history (3, 3, 0) in
  check_accepted (accepted_keys svs) (h_stats (default_run svs)) = true.
Proof. vm_compute. reflexivity. Qed.

Example check_accepted_rejects_aliased :
  let svs := history (1, 3, 2) in
  check_accepted (accepted_keys svs) (h_stats (default_run svs)) = false.
Proof. vm_compute. reflexivity. Qed.

(* ====================================================================== part 11 *)


(* ---------- get_list_of_types *)
Lemma types_fold_spec {V} (d : dict V) acc :
  NoDup acc ->
  let l := fold_left (fun acc kv => if existsb (oeqb String.eqb (e_type (fst kv))) acc then acc else acc ++ [e_type (fst kv)]) d acc in
  NoDup l /\ forall ty, In ty l <-> In ty acc \/ exists kv, In kv d /\ e_type (fst kv) = ty.
Proof.
  revert acc. induction d as [|kv d IH]; intros acc Hnd; simpl.
  - split; auto. intro ty. split; auto. intros [H|[kv [[] _]]]. exact H.
  - destruct (existsb (oeqb String.eqb (e_type (fst kv))) acc) eqn:E.
    + destruct (IH acc Hnd) as [H1 H2]. split; auto. intro ty. rewrite H2. split.
      * intros [H|[kv' [Hin Hty]]]; auto. right. exists kv'. auto.
      * intros [H|[kv' [[<-|Hin] Hty]]]; auto.
        -- left. apply existsb_exists in E. destruct E as [x [Hx Ex]]. apply oeqb_S_spec in Ex. subst. congruence.
        -- right. exists kv'. auto.
    + assert (Hnd' : NoDup (acc ++ [e_type (fst kv)])).
      { apply NoDup_app_iff || idtac. apply Permutation_NoDup with (l := e_type (fst kv) :: acc).
        - apply Permutation_cons_append.
        - constructor; auto. intro Hin. apply not_true_iff_false in E. apply E. apply existsb_exists.
          exists (e_type (fst kv)). split; auto. apply oeqb_S_spec. reflexivity. }
      destruct (IH _ Hnd') as [H1 H2]. split; auto. intro ty. rewrite H2, in_app_iff. simpl. split.
      * intros [[H|[<-|[]]]|[kv' [Hin Hty]]]; auto; right; [exists kv|exists kv']; auto.
      * intros [H|[kv' [[<-|Hin] Hty]]]; auto. right. exists kv'. auto.
Qed.

Theorem get_list_of_types_spec {V} (d : dict V) :
  NoDup (get_list_of_types d) /\
  forall ty, In ty (get_list_of_types d) <-> exists kv, In kv d /\ e_type (fst kv) = ty.
Proof.
  destruct (types_fold_spec d [] (NoDup_nil _)) as [H1 H2]. split; auto.
  intro ty. unfold get_list_of_types. rewrite H2. simpl. tauto.
Qed.

(* ---------- the comparators used by generated cases decide Leibniz equality *)
Lemma list_eqb_spec {A} (eqb : A -> A -> bool) :
  (forall x y, eqb x y = true <-> x = y) -> forall a b, list_eqb eqb a b = true <-> a = b.
Proof.
  intro H. induction a as [|x a IH]; destruct b as [|y b]; simpl; try (split; [discriminate|discriminate]); try tauto.
  rewrite andb_true_iff, H, IH. split; [intros [-> ->]; reflexivity|intro E; inversion E; auto].
Qed.

Lemma dict_eqb_spec a b : dict_eqb a b = true <-> a = b.
Proof.
  apply list_eqb_spec. intros [k v] [k' v']. simpl. rewrite andb_true_iff, entry_eqb_spec, Z.eqb_eq.
  split; [intros [-> ->]; reflexivity|intro E; inversion E; auto].
Qed.

Lemma item_eqb_spec a b : item_eqb a b = true <-> a = b.
Proof.
  destruct a, b; simpl; try (split; [discriminate|discriminate]); try tauto.
  - rewrite Z.eqb_eq. split; congruence.
  - rewrite String.eqb_eq. split; congruence.
Qed.

Lemma items_eqb_spec a b : items_eqb a b = true <-> a = b.
Proof.
  apply list_eqb_spec. intros [k v] [k' v']. simpl. rewrite andb_true_iff, item_eqb_spec, Z.eqb_eq.
  split; [intros [-> ->]; reflexivity|intro E; inversion E; auto].
Qed.

Lemma types_eqb_spec a b : types_eqb a b = true <-> a = b.
Proof. apply list_eqb_spec. apply oeqb_S_spec. Qed.

Lemma zlist_eqb_spec a b : zlist_eqb a b = true <-> a = b.
Proof. apply list_eqb_spec. apply Z.eqb_eq. Qed.

(* ====================================================================== summary statements *)

(* filter_stats without `recomputed`: exactly the entries matching all given keys, in the dictionary's order *)
Theorem filter_stats_exact {V} (truthy : V -> bool) (stats : dict V) kw :
  exists r, filter_stats truthy stats kw None = Some r /\
    r = filter (fun kv => matches kw (fst kv)) stats /\
    forall k v, In (k, v) r <-> In (k, v) stats /\ matchesP kw k.
Proof.
  exists (filter_plain kw stats). split; [reflexivity|]. split; [reflexivity|]. intros k v. apply filter_exact.
Qed.

(* the stale-counter scenario of LogWork: the last refresh came from another step (count r_other) *)
Example logwork_stale_key :
  let s := SV 0 (Some 0) 10 20 0 3 1 false (Some 3) 0 in
  let h := logwork_post_step s 7 (hook_refresh (Some (Some 0)) hook_init) in
  map (fun kv => e_num_restarts (fst kv)) (h_stats h) = [Some 0] /\ sv_nr s = Some 3.
Proof. vm_compute. auto. Qed.

(* ====================================================================== the economical validator *)
Lemma existsb_filter {A} (p f : A -> bool) l : existsb f (filter p l) = existsb (fun x => p x && f x) l.
Proof.
  induction l as [|a l IH]; simpl; auto. destruct (p a); simpl; rewrite IH; reflexivity.
Qed.

Lemma existsb_ext' {A} (f g : A -> bool) l : (forall x, f x = g x) -> existsb f l = existsb g l.
Proof. intro H. induction l as [|a l IH]; simpl; auto. rewrite H, IH. reflexivity. Qed.

Lemma existsb_map' {A B} (f : B -> bool) (g : A -> B) l : existsb f (map g l) = existsb (fun x => f (g x)) l.
Proof. induction l as [|a l IH]; simpl; auto. rewrite IH. reflexivity. Qed.

Lemma markedb_m_eq d t : markedb_m (filter (fun kv => is_marker (fst kv)) d) t = markedb d t.
Proof.
  unfold markedb_m, markedb. rewrite existsb_filter. apply existsb_ext'. intro m.
  rewrite existsb_filter.
  rewrite (existsb_ext' (fun x : entry * Z => is_marker (fst x) &&
             (if oeqb Z.eqb (e_time (fst x)) (e_time (fst m)) then nr (fst m) <? nr (fst x) else false))
            (fun m' => is_marker (fst m') && oeqb Z.eqb (e_time (fst m')) (e_time (fst m)) && (nr (fst m) <? nr (fst m')))).
  - destruct (is_marker (fst m)); simpl; auto. destruct (ztruthy (snd m)); simpl; auto.
  - intro x. destruct (is_marker (fst x)); simpl; auto.
Qed.

Theorem check_accepted_fast_sound acc d : check_accepted_fast acc d = true -> check_accepted acc d = true.
Proof.
  unfold check_accepted_fast, check_accepted. destruct (regularb d); [|discriminate]. simpl.
  rewrite forallb_forall. intro H.
  assert (H' : forall kv, In kv d ->
     (if is_marker (fst kv) then true
      else if memb (fst kv) acc then
        if forallb (fun kv' => if same_tt (fst kv') (fst kv) then nr (fst kv') <=? nr (fst kv) else true) d
        then negb (markedb d (e_time (fst kv))) else false
      else
        if existsb (fun kv' => if memb (fst kv') acc then (if same_tt (fst kv') (fst kv) then nr (fst kv) <? nr (fst kv') else false) else false) d
        then true else markedb d (e_time (fst kv))) = true).
  { intros kv Hin. specialize (H (memb (fst kv) acc, kv)). simpl in H. rewrite markedb_m_eq in H.
    assert (Hx := H ltac:(apply in_map_iff; exists kv; auto)). clear H. revert Hx.
    destruct (is_marker (fst kv)); auto. destruct (memb (fst kv) acc); auto.
    rewrite existsb_map'. simpl. auto. }
  clear H. rewrite !andb_true_iff, !forallb_forall. repeat split; intros kv Hin; specialize (H' kv Hin);
    destruct (is_marker (fst kv)); simpl; auto; destruct (memb (fst kv) acc) eqn:Ea; simpl; auto.
  - destruct (forallb _ d) eqn:Ef; [|discriminate]. rewrite <- Ef.
    clear. induction d as [|a l IH]; simpl; auto. rewrite IH. try (destruct (same_tt (fst a) (fst kv)); reflexivity).
  - destruct (existsb _ d) eqn:Ee.
    + rewrite orb_true_iff. left. rewrite <- Ee. clear. induction d as [|a l IH]; simpl; auto. rewrite IH.
      destruct (memb (fst a) acc); simpl; auto; try (destruct (same_tt (fst a) (fst kv)); reflexivity).
    + rewrite H'. apply orb_true_r.
  - destruct (forallb _ d); [exact H'|discriminate].
Qed.

Theorem check_accepted_fast_filter acc d :
  check_accepted_fast acc d = true ->
  forall s t b, s <> recomputed_tag ->
  exists r, filter_stats ztruthy d (kw_tt (Some s) t) (Some b) = Some r /\
    (exists P, r = filter P d) /\
    forall kv, In kv r <-> In kv d /\ matchesP (kw_tt (Some s) t) (fst kv) /\ In (fst kv) acc.
Proof. intro H. apply check_accepted_sound. apply check_accepted_fast_sound. exact H. Qed.

(* ====================================================================== Controller.add_hook *)
Lemma add_hook_in c cls hooks : In c (add_hook cls hooks) <-> In c hooks \/ c = cls.
Proof.
  unfold add_hook. destruct (existsb (Z.eqb cls) hooks) eqn:E.
  - split; auto. intros [H| ->]; auto. apply existsb_exists in E. destruct E as [x [Hx Ex]]. apply Z.eqb_eq in Ex. subst. exact Hx.
  - rewrite in_app_iff. simpl. intuition.
Qed.

Lemma add_hook_nodup cls hooks : NoDup hooks -> NoDup (add_hook cls hooks).
Proof.
  intro H. unfold add_hook. destruct (existsb (Z.eqb cls) hooks) eqn:E; auto.
  apply (Permutation_NoDup (l := cls :: hooks)); [apply Permutation_cons_append|].
  constructor; auto. intro Hin. apply not_true_iff_false in E. apply E. apply existsb_exists. exists cls. split; auto. apply Z.eqb_refl.
Qed.

Lemma add_hook_prefix cls hooks : exists tail, add_hook cls hooks = hooks ++ tail.
Proof. unfold add_hook. destruct (existsb _ hooks); [exists []; symmetry; apply app_nil_r|eexists; reflexivity]. Qed.

(* every requested hook class is registered exactly once, whatever else (e.g. a subclass) is already there;
   nothing else is registered; earlier hooks keep their position *)
Theorem add_hooks_spec requests hooks :
  NoDup hooks ->
  NoDup (add_hooks requests hooks) /\
  (forall c, In c (add_hooks requests hooks) <-> In c hooks \/ In c requests) /\
  exists tail, add_hooks requests hooks = hooks ++ tail.
Proof.
  unfold add_hooks. revert hooks. induction requests as [|r rs IH]; intros hooks Hnd; simpl.
  - split; auto. split; [intuition|]. exists []. symmetry. apply app_nil_r.
  - destruct (IH (add_hook r hooks) (add_hook_nodup r hooks Hnd)) as [H1 [H2 [tail H3]]].
    split; auto. split.
    + intro c. rewrite H2, add_hook_in. intuition.
    + destruct (add_hook_prefix r hooks) as [t1 E1]. exists (t1 ++ tail). rewrite H3, E1, app_assoc. reflexivity.
Qed.
