(* C17 — proofs about Model/Spectral.v.
   Polynomial identities are proved coefficientwise ([peq]); [peq] implies equality of values ([peval_peq]). *)
From Coq Require Import ZArith QArith Qabs Qfield List Bool Lia Lqa.
From PySDC Require Import Base.Tactics Base.Dyadic Base.Poly Model.Spectral.
Import ListNotations.
Open Scope Q_scope.

(* ------------------------------------------------------------------ numbers *)

Lemma Qn_S n : Qn (S n) == Qn n + 1.
Proof. unfold Qn. rewrite Nat2Z.inj_succ. unfold Z.succ. rewrite inject_Z_plus. reflexivity. Qed.

Lemma Qn_0 : Qn 0 == 0.
Proof. reflexivity. Qed.

Lemma Qn_add a b : Qn (a + b) == Qn a + Qn b.
Proof. unfold Qn. rewrite Nat2Z.inj_add, inject_Z_plus. reflexivity. Qed.

Lemma Qn_pos n : 0 < Qn (S n).
Proof. unfold Qn. change 0 with (inject_Z 0). rewrite <- Zlt_Qlt. lia. Qed.

Lemma Qn_nonneg n : 0 <= Qn n.
Proof. unfold Qn. change 0 with (inject_Z 0). rewrite <- Zle_Qle. lia. Qed.

Lemma Qn_neq0 n : ~ Qn (S n) == 0.
Proof. pose proof (Qn_pos n). lra. Qed.

Lemma sgn_S n : sgn (S n) == - sgn n.
Proof. unfold sgn. rewrite Nat.even_succ, <- Nat.negb_even. destruct (Nat.even n); reflexivity. Qed.

Lemma sgn_sq n : sgn n * sgn n == 1.
Proof. unfold sgn. destruct (Nat.even n); reflexivity. Qed.

(* ------------------------------------------------------------------ finite sums *)

Lemma bigsum_ext f g n : (forall m, (m < n)%nat -> f m == g m) -> bigsum f n == bigsum g n.
Proof.
  induction n as [|n IH]; intros H; cbn [bigsum]; [reflexivity|].
  rewrite IH by (intros; apply H; lia). rewrite (H n) by lia. reflexivity.
Qed.

Lemma bigsum_0 n : bigsum (fun _ => 0) n == 0.
Proof. induction n as [|n IH]; cbn [bigsum]; [reflexivity|]. rewrite IH. ring. Qed.

Lemma bigsum_zero f n : (forall m, (m < n)%nat -> f m == 0) -> bigsum f n == 0.
Proof. intros H. rewrite (bigsum_ext f (fun _ => 0)) by exact H. apply bigsum_0. Qed.

Lemma bigsum_add f g n : bigsum (fun m => f m + g m) n == bigsum f n + bigsum g n.
Proof. induction n as [|n IH]; cbn [bigsum]; [ring|]. rewrite IH. ring. Qed.

Lemma bigsum_sub f g n : bigsum (fun m => f m - g m) n == bigsum f n - bigsum g n.
Proof. induction n as [|n IH]; cbn [bigsum]; [ring|]. rewrite IH. ring. Qed.

Lemma bigsum_scal a f n : bigsum (fun m => a * f m) n == a * bigsum f n.
Proof. induction n as [|n IH]; cbn [bigsum]; [ring|]. rewrite IH. ring. Qed.

Lemma bigsum_scal_r a f n : bigsum (fun m => f m * a) n == bigsum f n * a.
Proof. induction n as [|n IH]; cbn [bigsum]; [ring|]. rewrite IH. ring. Qed.

Lemma bigsum_swap (f : nat -> nat -> Q) n m :
  bigsum (fun i => bigsum (fun j => f i j) m) n == bigsum (fun j => bigsum (fun i => f i j) n) m.
Proof.
  induction n as [|n IH]; cbn [bigsum].
  - symmetry. apply bigsum_0.
  - rewrite IH. rewrite <- bigsum_add. reflexivity.
Qed.

Lemma bigsum_single f n m0 : (m0 < n)%nat -> (forall m, (m < n)%nat -> m <> m0 -> f m == 0) ->
  bigsum f n == f m0.
Proof.
  induction n as [|n IH]; intros Hm H; [lia|]. cbn [bigsum].
  destruct (Nat.eq_dec m0 n) as [->|Hne].
  - rewrite bigsum_zero; [ring|]. intros m Hmn. apply H; lia.
  - rewrite IH; [|lia|intros; apply H; lia]. rewrite (H n) by lia. ring.
Qed.

Lemma bigsum_tail f n n' : (n <= n')%nat -> (forall m, (n <= m < n')%nat -> f m == 0) ->
  bigsum f n' == bigsum f n.
Proof.
  intros Hle H. induction n' as [|n' IH].
  - replace n with 0%nat by lia. reflexivity.
  - destruct (Nat.eq_dec n (S n')) as [->|Hne]; [reflexivity|].
    cbn [bigsum]. rewrite IH; [|lia|intros; apply H; lia]. rewrite (H n') by lia. ring.
Qed.

(* ------------------------------------------------------------------ polynomials: coefficients *)

Definition shiftc (f : nat -> Q) (m : nat) : Q := match m with O => 0 | S m' => f m' end.

Lemma coef_nil n : coef [] n = 0.
Proof. unfold coef. destruct n; reflexivity. Qed.

Lemma coef_padd p q n : coef (padd p q) n == coef p n + coef q n.
Proof.
  revert q n. induction p as [|a p IH]; intros q n.
  - cbn [padd]. rewrite coef_nil. ring.
  - destruct q as [|b q].
    + cbn [padd]. rewrite coef_nil. ring.
    + cbn [padd]. destruct n as [|n]; unfold coef; cbn [nth]; [reflexivity|]. apply IH.
Qed.

Lemma coef_pscale a p n : coef (pscale a p) n == a * coef p n.
Proof.
  revert n. induction p as [|b p IH]; intros n.
  - unfold pscale; cbn [map]. rewrite coef_nil. ring.
  - destruct n as [|n]; unfold coef, pscale; cbn [map nth]; [reflexivity|]. apply IH.
Qed.

Lemma coef_pX p n : coef (pX p) n = shiftc (coef p) n.
Proof. destruct n; reflexivity. Qed.

Lemma coef_psub p q n : coef (psub p q) n == coef p n - coef q n.
Proof. unfold psub. rewrite coef_padd, coef_pscale. ring. Qed.

Lemma coef_pderiv_from k p n : coef (pderiv_from k p) n == Qn (k + n) * coef p n.
Proof.
  revert k n. induction p as [|a p IH]; intros k n.
  - cbn [pderiv_from]. rewrite !coef_nil. ring.
  - destruct n as [|n]; unfold coef; cbn [pderiv_from nth].
    + rewrite Nat.add_0_r. reflexivity.
    + fold (coef (pderiv_from (S k) p) n). fold (coef p n). rewrite IH.
      replace (S k + n)%nat with (k + S n)%nat by lia. reflexivity.
Qed.

Lemma coef_pderiv p n : coef (pderiv p) n == Qn (S n) * coef p (S n).
Proof.
  destruct p as [|a p]; cbn [pderiv].
  - rewrite !coef_nil. ring.
  - rewrite coef_pderiv_from. reflexivity.
Qed.

Lemma coef_pint_from k p n : coef (pint_from k p) n == coef p n / Qn (k + n).
Proof.
  revert k n. induction p as [|a p IH]; intros k n.
  - cbn [pint_from]. rewrite !coef_nil. unfold Qdiv. ring.
  - destruct n as [|n]; unfold coef; cbn [pint_from nth].
    + rewrite Nat.add_0_r. reflexivity.
    + fold (coef (pint_from (S k) p) n). fold (coef p n). rewrite IH.
      replace (S k + n)%nat with (k + S n)%nat by lia. reflexivity.
Qed.

Lemma coef_pint_0 p : coef (pint p) 0 = 0.
Proof. reflexivity. Qed.

Lemma coef_pint_S p n : coef (pint p) (S n) == coef p n / Qn (S n).
Proof. unfold pint. change (coef (0 :: pint_from 1 p) (S n)) with (coef (pint_from 1 p) n). apply coef_pint_from. Qed.

Lemma coef_pseries basis c n m :
  coef (pseries basis c n) m == bigsum (fun j => c j * coef (basis j) m) n.
Proof.
  induction n as [|n IH]; cbn [pseries bigsum].
  - rewrite coef_nil. reflexivity.
  - rewrite coef_padd, coef_pscale, IH. reflexivity.
Qed.

Global Instance peq_Equivalence : Equivalence peq.
Proof.
  split.
  - intros p n. reflexivity.
  - intros p q H n. symmetry. apply H.
  - intros p q r H1 H2 n. rewrite (H1 n). apply H2.
Qed.

Lemma pderiv_peq p q : peq p q -> peq (pderiv p) (pderiv q).
Proof. intros H n. rewrite !coef_pderiv, (H (S n)). reflexivity. Qed.

(* ------------------------------------------------------------------ polynomials: values *)

Lemma peval_nil x : peval [] x = 0.
Proof. reflexivity. Qed.

Lemma peval_cons a p x : peval (a :: p) x = a + x * peval p x.
Proof. reflexivity. Qed.

Lemma peval_padd p q x : peval (padd p q) x == peval p x + peval q x.
Proof.
  revert q. induction p as [|a p IH]; intros q.
  - cbn [padd]. rewrite peval_nil. ring.
  - destruct q as [|b q]; cbn [padd].
    + rewrite peval_nil. ring.
    + rewrite !peval_cons, IH. ring.
Qed.

Lemma peval_pscale a p x : peval (pscale a p) x == a * peval p x.
Proof.
  induction p as [|b p IH]; unfold pscale; cbn [map].
  - rewrite peval_nil. ring.
  - rewrite !peval_cons. fold (pscale a p). rewrite IH. ring.
Qed.

Lemma peval_pX p x : peval (pX p) x == x * peval p x.
Proof. unfold pX. rewrite peval_cons. ring. Qed.

Lemma peval_psub p q x : peval (psub p q) x == peval p x - peval q x.
Proof. unfold psub. rewrite peval_padd, peval_pscale. ring. Qed.

Lemma peval_all_zero p x : (forall n, coef p n == 0) -> peval p x == 0.
Proof.
  induction p as [|a p IH]; intros H; [reflexivity|].
  rewrite peval_cons. rewrite IH.
  - pose proof (H 0%nat) as H0. unfold coef in H0. cbn [nth] in H0. rewrite H0. ring.
  - intros n. exact (H (S n)).
Qed.

(* coefficientwise equal polynomials have equal values everywhere *)
Lemma peval_peq p q x : peq p q -> peval p x == peval q x.
Proof.
  revert q. induction p as [|a p IH]; intros q H.
  - rewrite peval_nil. symmetry. apply peval_all_zero. intros n. rewrite <- (H n). rewrite coef_nil. reflexivity.
  - destruct q as [|b q].
    + rewrite peval_nil. apply peval_all_zero. intros n. rewrite (H n). rewrite coef_nil. reflexivity.
    + rewrite !peval_cons. rewrite (IH q).
      * pose proof (H 0%nat) as H0. unfold coef in H0. cbn [nth] in H0. rewrite H0. reflexivity.
      * intros n. exact (H (S n)).
Qed.

Lemma peval_pseries basis c n x :
  peval (pseries basis c n) x == bigsum (fun j => c j * peval (basis j) x) n.
Proof.
  induction n as [|n IH]; cbn [pseries bigsum].
  - reflexivity.
  - rewrite peval_padd, peval_pscale, IH. reflexivity.
Qed.

(* product rule for multiplication by X *)
Lemma pderiv_pX p : peq (pderiv (pX p)) (padd p (pX (pderiv p))).
Proof.
  intros n. rewrite coef_pderiv, coef_padd, !coef_pX. cbn [shiftc].
  destruct n as [|n]; cbn [shiftc].
  - rewrite Qn_S, Qn_0. ring.
  - rewrite coef_pderiv. rewrite (Qn_S (S n)). ring.
Qed.

(* fundamental theorem for formal polynomials *)
Lemma pint_pderiv q : forall n, coef (pint (pderiv q)) (S n) == coef q (S n).
Proof.
  intros n. rewrite coef_pint_S, coef_pderiv. field. apply Qn_neq0.
Qed.

Lemma pderiv_pint p : peq (pderiv (pint p)) p.
Proof. intros n. rewrite coef_pderiv, coef_pint_S. field. apply Qn_neq0. Qed.

(* ------------------------------------------------------------------ Chebyshev polynomials: recurrences *)

Lemma cheb_pair_SS p0 p1 n :
  fst (cheb_pair p0 p1 (S (S n))) =
  psub (pscale 2 (pX (fst (cheb_pair p0 p1 (S n))))) (fst (cheb_pair p0 p1 n)).
Proof. cbn [cheb_pair]. destruct (cheb_pair p0 p1 n) as [a b]. reflexivity. Qed.

Lemma chebT_SS n : chebT (S (S n)) = psub (pscale 2 (pX (chebT (S n)))) (chebT n).
Proof. apply cheb_pair_SS. Qed.
Lemma chebU_SS n : chebU (S (S n)) = psub (pscale 2 (pX (chebU (S n)))) (chebU n).
Proof. apply cheb_pair_SS. Qed.

Definition cT (n m : nat) : Q := coef (chebT n) m.
Definition cU (n m : nat) : Q := coef (chebU n) m.

Lemma cT_rec n m : cT (S (S n)) m == 2 * shiftc (cT (S n)) m - cT n m.
Proof. unfold cT. rewrite chebT_SS, coef_psub, coef_pscale, coef_pX. reflexivity. Qed.
Lemma cU_rec n m : cU (S (S n)) m == 2 * shiftc (cU (S n)) m - cU n m.
Proof. unfold cU. rewrite chebU_SS, coef_psub, coef_pscale, coef_pX. reflexivity. Qed.

Lemma cT_0 m : cT 0 m = match m with O => 1 | _ => 0 end.
Proof. destruct m as [|[|m]]; reflexivity. Qed.
Lemma cT_1 m : cT 1 m = match m with S O => 1 | _ => 0 end.
Proof. destruct m as [|[|[|m]]]; reflexivity. Qed.
Lemma cU_0 m : cU 0 m = cT 0 m.
Proof. reflexivity. Qed.
Lemma cU_1 m : cU 1 m == 2 * cT 1 m.
Proof. destruct m as [|[|[|m]]]; vm_compute; reflexivity. Qed.
Lemma cT_1_shift m : cT 1 m = shiftc (cT 0) m.
Proof. destruct m as [|[|[|m]]]; reflexivity. Qed.

(* two-step induction *)
Lemma nat_ind2 (P : nat -> Prop) : P 0%nat -> P 1%nat -> (forall n, P n -> P (S n) -> P (S (S n))) -> forall n, P n.
Proof.
  intros H0 H1 HS n. enough (P n /\ P (S n)) by tauto.
  induction n as [|n [IH1 IH2]]; split; auto.
Qed.

(* U_{n+2} - U_n = 2 T_{n+2} *)
Lemma U_minus_U n : forall m, cU (S (S n)) m - cU n m == 2 * cT (S (S n)) m.
Proof.
  induction n as [| |n IH0 IH1] using nat_ind2; intros m.
  - rewrite cU_rec, cT_rec, cU_0.
    destruct m as [|m]; cbn [shiftc]; [ring|]. rewrite (cU_1 m). ring.
  - rewrite (cU_rec 1), (cT_rec 1).
    destruct m as [|m]; cbn [shiftc].
    + rewrite cU_1, cT_1. ring.
    + (* U_2 = U_0 + 2 T_2 at m *)
      assert (H2 : cU 2 m - cU 0 m == 2 * cT 2 m).
      { rewrite cU_rec, cT_rec, cU_0. destruct m as [|m']; cbn [shiftc]; [ring|]. rewrite (cU_1 m'). ring. }
      rewrite cU_1, (cT_1_shift (S m)). cbn [shiftc]. rewrite cU_0 in H2. lra.
  - pose proof (cU_rec (S (S n)) m) as E1. pose proof (cT_rec (S (S n)) m) as E2. pose proof (cU_rec n m) as E3.
    destruct m as [|m]; cbn [shiftc] in *.
    + pose proof (IH0 0%nat). lra.
    + pose proof (IH0 (S m)). pose proof (IH1 m). lra.
Qed.

(* T_{n+1}' = (n+1) U_n   (coefficient m of the derivative is (m+1) * coefficient m+1) *)
Lemma T_deriv_U n : forall m, Qn (S m) * cT (S n) (S m) == Qn (S n) * cU n m.
Proof.
  induction n as [| |n IH0 IH1] using nat_ind2; intros m.
  - rewrite cT_1, cU_0, cT_0. destruct m as [|m]; [vm_compute; reflexivity | ring].
  - rewrite (cT_rec 0), cU_1, cT_0. cbn [shiftc]. rewrite !cT_1.
    destruct m as [|[|m]]; vm_compute; reflexivity.
  - rewrite (cT_rec (S n) (S m)), (cU_rec n m). cbn [shiftc].
    pose proof (IH0 m) as H0.
    destruct m as [|m]; cbn [shiftc].
    + pose proof (U_minus_U n 0%nat) as HU. pose proof (cU_rec n 0%nat) as E. cbn [shiftc] in E.
      rewrite !Qn_S in *. rewrite Qn_0 in *. lra.
    + pose proof (IH1 m) as H1. pose proof (U_minus_U n (S m)) as HU. pose proof (cU_rec n (S m)) as E.
      cbn [shiftc] in E. rewrite !Qn_S in *. lra.
Qed.

(* ------------------------------------------------------------------ case analysis on matrix entries *)

Lemma even_false_odd x : Nat.even x = false -> Nat.odd x = true.
Proof. intros H. unfold Nat.odd. rewrite H. reflexivity. Qed.
Lemma odd_false_even x : Nat.odd x = false -> Nat.even x = true.
Proof. unfold Nat.odd. destruct (Nat.even x); [reflexivity|discriminate]. Qed.

Ltac parity_norm :=
  repeat match goal with
  | H : Nat.even _ = false |- _ => apply even_false_odd in H
  | H : Nat.odd _ = false |- _ => apply odd_false_even in H
  | H : Nat.even _ = true |- _ => apply Nat.even_spec in H; destruct H as [? H]
  | H : Nat.odd _ = true |- _ => apply Nat.odd_spec in H; destruct H as [? H]
  end.

Ltac split_ifs :=
  repeat match goal with
  | |- context [if ?b then _ else _] => let E := fresh "E" in destruct b eqn:E
  end.

Ltac bool_norm :=
  repeat match goal with
  | H : (_ && _)%bool = true |- _ => apply andb_prop in H; destruct H
  | H : (_ && _)%bool = false |- _ => apply andb_false_iff in H; destruct H
  end.

(* solve an entry identity by exhaustive case analysis; arithmetic side conditions by lia *)
Ltac entries := split_ifs; bool_norm; parity_norm; try (exfalso; lia); try ring.

Ltac bs_single m0 :=
  match goal with |- context [bigsum ?f ?N] => rewrite (bigsum_single f N m0) end.
Ltac bs_zero :=
  match goal with |- context [bigsum ?f ?N] => rewrite (bigsum_zero f N) end.

(* ------------------------------------------------------------------ basis conversion T <-> U *)

Lemma U2T_col_step k n : U2T k (S (S n)) == U2T k n + (if Nat.eqb k (S (S n)) then 2 else 0).
Proof.
  unfold U2T.
  destruct (Nat.eqb k (S (S n))) eqn:E1.
  - apply Nat.eqb_eq in E1. subst k. rewrite Nat.leb_refl, Nat.sub_diag. cbn [Nat.even andb Nat.eqb].
    replace (S (S n) <=? n)%nat with false by (symmetry; apply Nat.leb_gt; lia). cbn [andb]. ring.
  - apply Nat.eqb_neq in E1.
    destruct (k <=? n)%nat eqn:E2.
    + apply Nat.leb_le in E2. replace (k <=? S (S n))%nat with true by (symmetry; apply Nat.leb_le; lia).
      replace (S (S n) - k)%nat with (S (S (n - k))) by lia. cbn [Nat.even andb]. ring.
    + apply Nat.leb_gt in E2. cbn [andb].
      destruct (k <=? S (S n))%nat eqn:E3; cbn [andb]; [|ring].
      apply Nat.leb_le in E3. replace (S (S n) - k)%nat with 1%nat by lia. cbn [Nat.even]. ring.
Qed.

Lemma U2T_sem N n : (n < N)%nat -> forall m, cU n m == bigsum (fun k => U2T k n * cT k m) N.
Proof.
  induction n as [| |n IH0 IH1] using nat_ind2; intros Hn m.
  - bs_single 0%nat.
    + rewrite cU_0. unfold U2T. cbn. ring.
    + lia.
    + intros k Hk Hne. unfold U2T. destruct k; [lia|cbn; ring].
  - bs_single 1%nat.
    + rewrite cU_1. unfold U2T. cbn. ring.
    + lia.
    + intros k Hk Hne. unfold U2T. destruct k as [|[|k]]; [cbn; ring | lia | cbn; ring].
  - rewrite (bigsum_ext _ (fun k => U2T k n * cT k m + (if Nat.eqb k (S (S n)) then 2 else 0) * cT k m)).
    2:{ intros k Hk. rewrite U2T_col_step. ring. }
    rewrite bigsum_add, <- IH0 by lia.
    bs_single (S (S n)).
    + rewrite Nat.eqb_refl. pose proof (U_minus_U n m). lra.
    + lia.
    + intros k Hk Hne. apply Nat.eqb_neq in Hne. rewrite Hne. ring.
Qed.

Lemma T2U_sem N n : (n < N)%nat -> forall m, cT n m == bigsum (fun k => T2U k n * cU k m) N.
Proof.
  intros Hn m.
  rewrite (bigsum_ext _ (fun k => (if Nat.eqb k n then (if Nat.eqb k 0 then 1 else 1 # 2) * cU k m else 0)
                                  + (if Nat.eqb (k + 2) n then - (1 # 2) * cU k m else 0))).
  2:{ intros k Hk. unfold T2U. destruct (Nat.eqb k n) eqn:E1; destruct (Nat.eqb (k + 2) n) eqn:E2; try ring.
      apply Nat.eqb_eq in E1, E2. lia. }
  rewrite bigsum_add.
  rewrite (bigsum_single (fun k => if Nat.eqb k n then _ else 0) N n)
    by (try lia; intros k Hk Hne; apply Nat.eqb_neq in Hne; rewrite Hne; reflexivity).
  rewrite Nat.eqb_refl.
  destruct n as [|[|n]].
  - rewrite (bigsum_zero (fun k => if Nat.eqb (k + 2) 0 then _ else 0))
      by (intros k Hk; destruct (Nat.eqb (k + 2) 0) eqn:E; [apply Nat.eqb_eq in E; lia | reflexivity]).
    cbn [Nat.eqb]. rewrite cU_0. ring.
  - rewrite (bigsum_zero (fun k => if Nat.eqb (k + 2) 1 then _ else 0))
      by (intros k Hk; destruct (Nat.eqb (k + 2) 1) eqn:E; [apply Nat.eqb_eq in E; lia | reflexivity]).
    cbn [Nat.eqb]. rewrite cU_1. ring.
  - rewrite (bigsum_single (fun k => if Nat.eqb (k + 2) (S (S n)) then _ else 0) N n).
    + replace (n + 2)%nat with (S (S n)) by lia. rewrite Nat.eqb_refl. cbn [Nat.eqb].
      pose proof (U_minus_U n m). lra.
    + lia.
    + intros k Hk Hne. destruct (Nat.eqb (k + 2) (S (S n))) eqn:E; [apply Nat.eqb_eq in E; lia | reflexivity].
Qed.

(* ------------------------------------------------------------------ differentiation in the T basis *)

Lemma DT_U2T k j : DT k (S j) == Qn (S j) * U2T k j.
Proof.
  unfold DT, U2T.
  destruct (k <=? j)%nat eqn:E.
  - apply Nat.leb_le in E. replace (k <? S j)%nat with true by (symmetry; apply Nat.ltb_lt; lia).
    replace (S j - k)%nat with (S (j - k)) by lia. rewrite Nat.odd_succ. cbn [andb].
    destruct (Nat.even (j - k)); destruct (Nat.eqb k 0%nat); ring.
  - apply Nat.leb_gt in E. replace (k <? S j)%nat with false by (symmetry; apply Nat.ltb_ge; lia).
    cbn [andb]. ring.
Qed.

Lemma DT_col0 k : DT k 0%nat == 0.
Proof. unfold DT. replace (k <? 0)%nat with false by (symmetry; apply Nat.ltb_ge; lia). reflexivity. Qed.

(* column j of D holds the T-coefficients of T_j' *)
Lemma DT_sem N j : (j < N)%nat -> forall m, Qn (S m) * cT j (S m) == bigsum (fun k => DT k j * cT k m) N.
Proof.
  intros Hj m. destruct j as [|j].
  - rewrite cT_0. bs_zero; [ring|]. intros k Hk. rewrite DT_col0. ring.
  - rewrite T_deriv_U, (U2T_sem N j) by lia. rewrite <- bigsum_scal.
    apply bigsum_ext. intros k Hk. rewrite DT_U2T. ring.
Qed.

(* a matrix whose columns hold the expansion of basis1_j in basis2 converts series *)
Lemma series_convert (b1 b2 : nat -> list Q) (M : mat) N :
  (forall j, (j < N)%nat -> forall m, coef (b1 j) m == bigsum (fun k => M k j * coef (b2 k) m) N) ->
  forall c, peq (pseries b1 c N) (pseries b2 (mv N M c) N).
Proof.
  intros H c m. rewrite !coef_pseries.
  rewrite (bigsum_ext _ (fun j => bigsum (fun k => c j * (M k j * coef (b2 k) m)) N)).
  2:{ intros j Hj. rewrite (H j Hj). rewrite <- bigsum_scal. reflexivity. }
  rewrite bigsum_swap. apply bigsum_ext. intros k Hk. unfold mv.
  rewrite <- bigsum_scal_r. apply bigsum_ext. intros j Hj. ring.
Qed.

Theorem T2U_correct N c : peq (pseries chebT c N) (pseries chebU (mv N T2U c) N).
Proof. apply series_convert. intros j Hj m. apply (T2U_sem N j Hj). Qed.

Theorem U2T_correct N c : peq (pseries chebU c N) (pseries chebT (mv N U2T c) N).
Proof. apply series_convert. intros j Hj m. apply (U2T_sem N j Hj). Qed.

(* (sum_j c_j T_j)' = sum_k (D c)_k T_k *)
Theorem cheb_diff_correct N c : peq (pderiv (pseries chebT c N)) (pseries chebT (mv N DT c) N).
Proof.
  intros m. rewrite coef_pderiv, !coef_pseries.
  rewrite <- bigsum_scal.
  rewrite (bigsum_ext _ (fun j => bigsum (fun k => c j * (DT k j * cT k m)) N)).
  2:{ intros j Hj. rewrite bigsum_scal. rewrite <- (DT_sem N j Hj). unfold cT. ring. }
  rewrite bigsum_swap. apply bigsum_ext. intros k Hk. unfold mv.
  rewrite <- bigsum_scal_r. apply bigsum_ext. intros j Hj. unfold cT. ring.
Qed.

(* ------------------------------------------------------------------ boundary rows *)

Definition vT (n : nat) (x : Q) : Q := peval (chebT n) x.
Definition vdT (n : nat) (x : Q) : Q := peval (pderiv (chebT n)) x.

Lemma vT_rec n x : vT (S (S n)) x == 2 * x * vT (S n) x - vT n x.
Proof. unfold vT. rewrite chebT_SS, peval_psub, peval_pscale, peval_pX. ring. Qed.

Lemma vT_0 x : vT 0 x == 1.
Proof. unfold vT. change (chebT 0) with [1]. rewrite peval_cons, peval_nil. ring. Qed.
Lemma vT_1 x : vT 1 x == x.
Proof. unfold vT. change (chebT 1) with [0; 1]. rewrite !peval_cons, peval_nil. ring. Qed.

Lemma peval_pderiv_peq p q x : peq p q -> peval (pderiv p) x == peval (pderiv q) x.
Proof. intros H. apply peval_peq, pderiv_peq, H. Qed.

Lemma pderiv_padd p q : peq (pderiv (padd p q)) (padd (pderiv p) (pderiv q)).
Proof. intros n. rewrite coef_pderiv, !coef_padd, !coef_pderiv. ring. Qed.
Lemma pderiv_pscale a p : peq (pderiv (pscale a p)) (pscale a (pderiv p)).
Proof. intros n. rewrite coef_pderiv, !coef_pscale, coef_pderiv. ring. Qed.
Lemma pderiv_psub p q : peq (pderiv (psub p q)) (psub (pderiv p) (pderiv q)).
Proof. intros n. rewrite coef_pderiv, !coef_psub, !coef_pderiv. ring. Qed.

Lemma vdT_rec n x : vdT (S (S n)) x == 2 * vT (S n) x + 2 * x * vdT (S n) x - vdT n x.
Proof.
  unfold vdT, vT. rewrite chebT_SS.
  rewrite (peval_peq _ _ x (pderiv_psub _ _)), peval_psub.
  rewrite (peval_peq _ _ x (pderiv_pscale _ _)), peval_pscale.
  rewrite (peval_peq _ _ x (pderiv_pX _)), peval_padd, peval_pX. ring.
Qed.
Lemma vdT_0 x : vdT 0 x == 0.
Proof. reflexivity. Qed.
Lemma vdT_1 x : vdT 1 x == 1.
Proof.
  unfold vdT. change (pderiv (chebT 1)) with [Qn 1 * 1]. rewrite peval_cons, peval_nil.
  change (Qn 1) with 1. ring.
Qed.

Lemma div2_SS n : (S (S n) / 2 = S (n / 2))%nat.
Proof. change (S (S n)) with (1 * 2 + n)%nat. rewrite Nat.div_add_l by lia. reflexivity. Qed.

(* T_n(1) = 1, T_n(-1) = (-1)^n, T_n(0) = 0 / (-1)^(n/2) *)
Lemma dir_row_value b n : vT n (bpt_Q b) == dir_row b n.
Proof.
  induction n as [| |n IH0 IH1] using nat_ind2.
  - rewrite vT_0. destruct b; reflexivity.
  - rewrite vT_1. destruct b; reflexivity.
  - rewrite vT_rec, IH0, IH1. destruct b; cbn [bpt_Q dir_row].
    + rewrite !sgn_S. ring.
    + rewrite Nat.even_succ_succ, div2_SS. destruct (Nat.even n); [rewrite sgn_S|]; ring.
    + ring.
Qed.

Theorem dirichlet_row_is_evaluation N c b :
  peval (pseries chebT c N) (bpt_Q b) == bigsum (fun j => dir_row b j * c j) N.
Proof.
  rewrite peval_pseries. apply bigsum_ext. intros j Hj.
  fold (vT j (bpt_Q b)). rewrite dir_row_value. ring.
Qed.

Lemma neu_row_value b n : b <> B0 -> vdT n (bpt_Q b) == neu_row b n.
Proof.
  intros Hb. induction n as [| |n IH0 IH1] using nat_ind2.
  - rewrite vdT_0. destruct b; reflexivity.
  - rewrite vdT_1. destruct b; reflexivity.
  - rewrite vdT_rec, IH0, IH1, dir_row_value. destruct b; [| congruence |]; cbn [bpt_Q dir_row neu_row].
    + destruct n as [|n].
      * vm_compute. reflexivity.
      * rewrite !sgn_S, !Qn_S. ring.
    + rewrite !Qn_S. ring.
Qed.

Lemma peval_pderiv_pseries basis c n x :
  peval (pderiv (pseries basis c n)) x == bigsum (fun j => c j * peval (pderiv (basis j)) x) n.
Proof.
  induction n as [|n IH]; cbn [pseries bigsum].
  - reflexivity.
  - rewrite (peval_peq _ _ x (pderiv_padd _ _)), peval_padd, IH.
    rewrite (peval_peq _ _ x (pderiv_pscale _ _)), peval_pscale. reflexivity.
Qed.

Theorem neumann_row_is_derivative N c b : b <> B0 ->
  peval (pderiv (pseries chebT c N)) (bpt_Q b) == bigsum (fun j => neu_row b j * c j) N.
Proof.
  intros Hb. rewrite peval_pderiv_pseries. apply bigsum_ext. intros j Hj.
  fold (vdT j (bpt_Q b)). rewrite neu_row_value by exact Hb. ring.
Qed.

(* ------------------------------------------------------------------ integrals *)

Definition pdefint (p : list Q) (a b : Q) : Q := peval (pint p) b - peval (pint p) a.

Lemma pint_peq p q : peq p q -> peq (pint p) (pint q).
Proof.
  intros H [|n]; [reflexivity|]. rewrite !coef_pint_S, (H n). reflexivity.
Qed.
Lemma pint_padd p q : peq (pint (padd p q)) (padd (pint p) (pint q)).
Proof.
  intros [|n]; rewrite coef_padd.
  - rewrite !coef_pint_0. ring.
  - rewrite !coef_pint_S, coef_padd. field. apply Qn_neq0.
Qed.
Lemma pint_pscale a p : peq (pint (pscale a p)) (pscale a (pint p)).
Proof.
  intros [|n]; rewrite coef_pscale.
  - rewrite !coef_pint_0. ring.
  - rewrite !coef_pint_S, coef_pscale. field. apply Qn_neq0.
Qed.

Lemma pdefint_peq p q a b : peq p q -> pdefint p a b == pdefint q a b.
Proof. intros H. unfold pdefint. rewrite !(peval_peq _ _ _ (pint_peq _ _ H)). reflexivity. Qed.

Lemma pdefint_pseries basis c n a b :
  pdefint (pseries basis c n) a b == bigsum (fun j => c j * pdefint (basis j) a b) n.
Proof.
  unfold pdefint. induction n as [|n IH]; cbn [pseries bigsum].
  - change (pint []) with [0]. rewrite !peval_cons, !peval_nil. ring.
  - rewrite !(peval_peq _ _ _ (pint_padd _ _)), !peval_padd.
    rewrite !(peval_peq _ _ _ (pint_pscale _ _)), !peval_pscale.
    rewrite <- IH. ring.
Qed.

(* fundamental theorem: the integral of q' is the difference of the values of q *)
Lemma pint_pderiv_peq q : peq (pint (pderiv q)) (psub q [coef q 0]).
Proof.
  intros [|n]; rewrite coef_psub.
  - rewrite coef_pint_0. unfold coef at 2. cbn [nth]. ring.
  - rewrite pint_pderiv. unfold coef at 3. cbn [nth]. destruct n; ring.
Qed.

Lemma pdefint_pderiv q a b : pdefint (pderiv q) a b == peval q b - peval q a.
Proof.
  unfold pdefint. rewrite !(peval_peq _ _ _ (pint_pderiv_peq q)), !peval_psub, !peval_cons, !peval_nil. ring.
Qed.

(* antiderivative of T_{n+2}:  T_{n+2} = ( T_{n+3}/(n+3) - T_{n+1}/(n+1) )' / 2 *)
Definition antiT (n : nat) : list Q :=
  pscale (1 # 2) (psub (pscale (/ Qn (S (S (S n)))) (chebT (S (S (S n))))) (pscale (/ Qn (S n)) (chebT (S n)))).

Lemma antiT_deriv n : peq (pderiv (antiT n)) (chebT (S (S n))).
Proof.
  intros m. unfold antiT. rewrite coef_pderiv, coef_pscale, coef_psub, !coef_pscale.
  fold (cT (S (S (S n))) (S m)). fold (cT (S n) (S m)). fold (cT (S (S n)) m).
  pose proof (T_deriv_U (S (S n)) m) as H1. pose proof (T_deriv_U n m) as H2.
  pose proof (U_minus_U n m) as H3.
  assert (E1 : Qn (S m) * (/ Qn (S (S (S n))) * cT (S (S (S n))) (S m)) == cU (S (S n)) m).
  { rewrite (Qmult_comm (/ _)), Qmult_assoc, H1. field. apply Qn_neq0. }
  assert (E2 : Qn (S m) * (/ Qn (S n) * cT (S n) (S m)) == cU n m).
  { rewrite (Qmult_comm (/ _)), Qmult_assoc, H2. field. apply Qn_neq0. }
  lra.
Qed.

Lemma integ_row_value n : pdefint (chebT n) (-(1)) 1 == integ_row n.
Proof.
  destruct n as [|[|n]].
  - vm_compute. reflexivity.
  - vm_compute. reflexivity.
  - rewrite <- (pdefint_peq _ _ _ _ (antiT_deriv n)), pdefint_pderiv.
    unfold antiT. rewrite !peval_pscale, !peval_psub, !peval_pscale.
    fold (vT (S (S (S n))) 1) (vT (S n) 1) (vT (S (S (S n))) (-(1))) (vT (S n) (-(1))).
    rewrite (dir_row_value Bp1 (S (S (S n)))), (dir_row_value Bp1 (S n)).
    rewrite (dir_row_value Bm1 (S (S (S n)))), (dir_row_value Bm1 (S n)).
    cbn [dir_row integ_row]. rewrite !sgn_S, !Qn_S.
    pose proof (Qn_nonneg n). field. repeat split; try lra.
    intro E. assert (E' : (Qn n + 1) * (Qn n + 3) == 0) by lra.
    apply Qmult_integral in E'. destruct E'; lra.
Qed.

Theorem integ_row_is_integral N c :
  pdefint (pseries chebT c N) (-(1)) 1 == bigsum (fun j => integ_row j * c j) N.
Proof.
  rewrite pdefint_pseries. apply bigsum_ext. intros j Hj. rewrite integ_row_value. ring.
Qed.

(* get_integration_weights carries the interval map: weights = (L/2) * integral row *)
Lemma wT_integ L n : ~ L == 0 -> wT L n == (L / 2) * integ_row n.
Proof.
  intros HL. unfold wT, integ_row.
  destruct n as [|[|n]].
  - cbn [Nat.ltb Nat.leb]. change (sgn 0) with 1. field. exact HL.
  - cbn [Nat.ltb Nat.leb]. change (sgn 1) with (-(1)). field. exact HL.
  - cbn [Nat.ltb Nat.leb]. rewrite !Qn_S. pose proof (Qn_nonneg n). field. repeat split; try lra.
    intro E. assert (E' : (Qn n + 1) * (Qn n + 3) == 0) by lra.
    apply Qmult_integral in E'. destruct E'; lra.
Qed.

(* ------------------------------------------------------------------ Kronecker products *)

Lemma bigsum_app f a b : bigsum f (a + b) == bigsum f a + bigsum (fun i => f (a + i)%nat) b.
Proof.
  induction b as [|b IH].
  - rewrite Nat.add_0_r. cbn [bigsum]. ring.
  - replace (a + S b)%nat with (S (a + b)) by lia. cbn [bigsum]. rewrite IH. ring.
Qed.

(* a sum over the flattened (row-major) index is the double sum *)
Lemma bigsum_prod (f : nat -> nat -> Q) n1 n2 : (0 < n2)%nat ->
  bigsum (fun r => f (r / n2)%nat (r mod n2)%nat) (n1 * n2) == bigsum (fun i => bigsum (fun j => f i j) n2) n1.
Proof.
  intros Hn. induction n1 as [|n1 IH].
  - reflexivity.
  - replace (S n1 * n2)%nat with (n1 * n2 + n2)%nat by lia.
    rewrite bigsum_app, IH. cbn [bigsum]. apply Qplus_comp; [reflexivity|].
    apply bigsum_ext. intros j Hj.
    replace ((n1 * n2 + j) / n2)%nat with n1
      by (rewrite Nat.div_add_l by lia; rewrite (Nat.div_small j n2) by lia; lia).
    replace ((n1 * n2 + j) mod n2)%nat with j
      by (rewrite (Nat.add_comm (n1 * n2)), Nat.mod_add by lia; rewrite Nat.mod_small by lia; reflexivity).
    reflexivity.
Qed.

(* kron(A, B) applied to a flattened n1 x n2 array X is  sum_{j1, j2} A[i1, j1] B[i2, j2] X[j1, j2] *)
Theorem kron_is_tensor n1 n2 (A B : mat) (X : nat -> nat -> Q) i1 i2 :
  (i2 < n2)%nat ->
  mv (n1 * n2) (kron n2 A B) (fun r => X (r / n2)%nat (r mod n2)%nat) (i1 * n2 + i2)
  == bigsum (fun j1 => bigsum (fun j2 => A i1 j1 * B i2 j2 * X j1 j2) n2) n1.
Proof.
  intros H2. unfold mv, kron.
  replace ((i1 * n2 + i2) / n2)%nat with i1
    by (rewrite Nat.div_add_l by lia; rewrite (Nat.div_small i2 n2) by lia; lia).
  replace ((i1 * n2 + i2) mod n2)%nat with i2
    by (rewrite (Nat.add_comm (i1 * n2)), Nat.mod_add by lia; rewrite Nat.mod_small by lia; reflexivity).
  rewrite (bigsum_prod (fun j1 j2 => A i1 j1 * B i2 j2 * X j1 j2)) by lia. reflexivity.
Qed.

(* expand_matrix_ND: kron(M, I) applies M along the first axis, kron(I, M) along the second *)
Corollary kron_left_identity n1 n2 (A : mat) X i1 i2 : (i2 < n2)%nat ->
  mv (n1 * n2) (kron n2 A mI) (fun r => X (r / n2)%nat (r mod n2)%nat) (i1 * n2 + i2)
  == bigsum (fun j1 => A i1 j1 * X j1 i2) n1.
Proof.
  intros H2. rewrite kron_is_tensor by exact H2. apply bigsum_ext. intros j1 H1.
  rewrite (bigsum_single (fun j2 => A i1 j1 * mI i2 j2 * X j1 j2) n2 i2).
  - unfold mI. rewrite Nat.eqb_refl. ring.
  - exact H2.
  - intros m Hm Hne. unfold mI. replace (Nat.eqb i2 m) with false by (symmetry; apply Nat.eqb_neq; lia). ring.
Qed.

Corollary kron_right_identity n1 n2 (B : mat) X i1 i2 : (i1 < n1)%nat -> (i2 < n2)%nat ->
  mv (n1 * n2) (kron n2 mI B) (fun r => X (r / n2)%nat (r mod n2)%nat) (i1 * n2 + i2)
  == bigsum (fun j2 => B i2 j2 * X i1 j2) n2.
Proof.
  intros H1 H2. rewrite kron_is_tensor by exact H2.
  rewrite (bigsum_single (fun j1 => bigsum (fun j2 => mI i1 j1 * B i2 j2 * X j1 j2) n2) n1 i1).
  - apply bigsum_ext. intros j2 Hj. unfold mI. rewrite Nat.eqb_refl. ring.
  - exact H1.
  - intros m Hm Hne. apply bigsum_zero. intros j2 Hj. unfold mI.
    replace (Nat.eqb i1 m) with false by (symmetry; apply Nat.eqb_neq; lia). ring.
Qed.

(* ------------------------------------------------------------------ conversions are mutually inverse *)

Lemma T2U_col j m : T2U m j == (if Nat.eqb m j then (if Nat.eqb j 0 then 1 else 1 # 2) else 0)
                              + (if Nat.eqb (m + 2) j then - (1 # 2) else 0).
Proof.
  unfold T2U. destruct (Nat.eqb m j) eqn:E1; destruct (Nat.eqb (m + 2) j) eqn:E2; try ring.
  - apply Nat.eqb_eq in E1, E2. lia.
  - apply Nat.eqb_eq in E1. subst. ring.
Qed.

(* U2T * T2U = I  (entries below N) *)
Theorem U2T_T2U_inverse N k j : (k < N)%nat -> (j < N)%nat -> mmul N U2T T2U k j == mI k j.
Proof.
  intros Hk Hj. unfold mmul.
  rewrite (bigsum_ext _ (fun m => (if Nat.eqb m j then U2T k m * (if Nat.eqb j 0 then 1 else 1 # 2) else 0)
                                  + (if Nat.eqb (m + 2) j then U2T k m * - (1 # 2) else 0))).
  2:{ intros m Hm. rewrite T2U_col. destruct (Nat.eqb m j); destruct (Nat.eqb (m + 2) j); ring. }
  rewrite bigsum_add.
  rewrite (bigsum_single (fun m => if Nat.eqb m j then _ else 0) N j)
    by (try lia; intros m Hm Hne; apply Nat.eqb_neq in Hne; rewrite Hne; reflexivity).
  rewrite Nat.eqb_refl.
  destruct j as [|[|j]].
  - rewrite (bigsum_zero (fun m => if Nat.eqb (m + 2) 0 then _ else 0))
      by (intros m Hm; destruct (Nat.eqb (m + 2) 0) eqn:E; [apply Nat.eqb_eq in E; lia | reflexivity]).
    unfold U2T, mI. destruct k; cbn; ring.
  - rewrite (bigsum_zero (fun m => if Nat.eqb (m + 2) 1 then _ else 0))
      by (intros m Hm; destruct (Nat.eqb (m + 2) 1) eqn:E; [apply Nat.eqb_eq in E; lia | reflexivity]).
    unfold U2T, mI. destruct k as [|[|k]]; cbn; ring.
  - rewrite (bigsum_single (fun m => if Nat.eqb (m + 2) (S (S j)) then _ else 0) N j).
    + replace (j + 2)%nat with (S (S j)) by lia. rewrite Nat.eqb_refl. cbn [Nat.eqb].
      rewrite U2T_col_step. unfold mI. destruct (Nat.eqb k (S (S j))); ring.
    + lia.
    + intros m Hm Hne. destruct (Nat.eqb (m + 2) (S (S j))) eqn:E; [apply Nat.eqb_eq in E; lia | reflexivity].
Qed.

Lemma U2T_row_step k j : U2T k j - (if Nat.eqb k 0 then 1 # 2 else 1) * U2T (k + 2)%nat j
                         == if Nat.eqb k j then (if Nat.eqb k 0 then 1 else 2) else 0.
Proof.
  unfold U2T.
  destruct (Nat.eqb k j) eqn:E.
  - apply Nat.eqb_eq in E. subst j. rewrite Nat.leb_refl, Nat.sub_diag.
    replace (k + 2 <=? k)%nat with false by (symmetry; apply Nat.leb_gt; lia).
    cbn [Nat.even andb]. destruct (Nat.eqb k 0); ring.
  - apply Nat.eqb_neq in E.
    destruct (k + 2 <=? j)%nat eqn:E2.
    + apply Nat.leb_le in E2. replace (k <=? j)%nat with true by (symmetry; apply Nat.leb_le; lia).
      replace (j - k)%nat with (S (S (j - (k + 2)))) by lia. cbn [Nat.even andb].
      replace (Nat.eqb (k + 2) 0) with false by (symmetry; apply Nat.eqb_neq; lia).
      destruct (Nat.even (j - (k + 2))); destruct (Nat.eqb k 0); ring.
    + apply Nat.leb_gt in E2. cbn [andb].
      destruct (k <=? j)%nat eqn:E3; cbn [andb].
      * apply Nat.leb_le in E3. replace (j - k)%nat with 1%nat by lia. cbn [Nat.even]. ring.
      * ring.
Qed.

(* T2U * U2T = I *)
Theorem T2U_U2T_inverse N k j : (k < N)%nat -> (j < N)%nat -> mmul N T2U U2T k j == mI k j.
Proof.
  intros Hk Hj. unfold mmul.
  rewrite (bigsum_ext _ (fun m => (if Nat.eqb m k then (if Nat.eqb k 0 then 1 else 1 # 2) * U2T m j else 0)
                                  + (if Nat.eqb m (k + 2) then - (1 # 2) * U2T m j else 0))).
  2:{ intros m Hm. unfold T2U. rewrite (Nat.eqb_sym m k), (Nat.eqb_sym m (k + 2)).
      destruct (Nat.eqb k m) eqn:E1; destruct (Nat.eqb (k + 2) m) eqn:E2; try ring.
      apply Nat.eqb_eq in E1, E2. lia. }
  rewrite bigsum_add.
  rewrite (bigsum_single (fun m => if Nat.eqb m k then _ else 0) N k)
    by (try lia; intros m Hm Hne; apply Nat.eqb_neq in Hne; rewrite Hne; reflexivity).
  rewrite Nat.eqb_refl.
  pose proof (U2T_row_step k j) as HR. unfold mI.
  destruct (Nat.ltb (k + 2) N) eqn:EN.
  - apply Nat.ltb_lt in EN.
    rewrite (bigsum_single (fun m => if Nat.eqb m (k + 2) then _ else 0) N (k + 2)%nat)
      by (try lia; intros m Hm Hne; apply Nat.eqb_neq in Hne; rewrite Hne; reflexivity).
    rewrite Nat.eqb_refl. destruct (Nat.eqb k 0); destruct (Nat.eqb k j); lra.
  - apply Nat.ltb_ge in EN.
    rewrite (bigsum_zero (fun m => if Nat.eqb m (k + 2) then _ else 0))
      by (intros m Hm; destruct (Nat.eqb m (k + 2)) eqn:E; [apply Nat.eqb_eq in E; lia | reflexivity]).
    assert (HZ : U2T (k + 2)%nat j == 0).
    { unfold U2T. replace (k + 2 <=? j)%nat with false by (symmetry; apply Nat.leb_gt; lia). reflexivity. }
    rewrite HZ in HR. destruct (Nat.eqb k 0); destruct (Nat.eqb k j); lra.
Qed.
