(* C17 — proofs about Model/Spectral.v.
   Polynomial identities are proved coefficientwise ([peq]); [peq] implies equality of values ([peval_peq]). *)
From Coq Require Import ZArith QArith Qabs Qfield List Bool Lia Lqa.
From PySDC Require Import Base.Tactics Base.Dyadic Base.Poly Model.Spectral.
Import ListNotations.
Open Scope Q_scope.

(* ------------------------------------------------------------------ numbers *)

Lemma Qn_S n : Qn (S n) == Qn n + 1.
Proof. unfold Qn. rewrite Nat2Z.inj_succ. unfold Z.succ. rewrite inject_Z_plus. reflexivity. Qed.

Lemma Qn_0 : Qn 0 == 0.
Proof. reflexivity. Qed.

Lemma Qn_add a b : Qn (a + b) == Qn a + Qn b.
Proof. unfold Qn. rewrite Nat2Z.inj_add, inject_Z_plus. reflexivity. Qed.

Lemma Qn_pos n : 0 < Qn (S n).
Proof. unfold Qn. change 0 with (inject_Z 0). rewrite <- Zlt_Qlt. lia. Qed.

Lemma Qn_nonneg n : 0 <= Qn n.
Proof. unfold Qn. change 0 with (inject_Z 0). rewrite <- Zle_Qle. lia. Qed.

Lemma Qn_neq0 n : ~ Qn (S n) == 0.
Proof. pose proof (Qn_pos n). lra. Qed.

Lemma sgn_S n : sgn (S n) == - sgn n.
Proof. unfold sgn. rewrite Nat.even_succ, <- Nat.negb_even. destruct (Nat.even n); reflexivity. Qed.

Lemma sgn_sq n : sgn n * sgn n == 1.
Proof. unfold sgn. destruct (Nat.even n); reflexivity. Qed.

(* ------------------------------------------------------------------ finite sums *)

Lemma bigsum_ext f g n : (forall m, (m < n)%nat -> f m == g m) -> bigsum f n == bigsum g n.
Proof.
  induction n as [|n IH]; intros H; cbn [bigsum]; [reflexivity|].
  rewrite IH by (intros; apply H; lia). rewrite (H n) by lia. reflexivity.
Qed.

Lemma bigsum_0 n : bigsum (fun _ => 0) n == 0.
Proof. induction n as [|n IH]; cbn [bigsum]; [reflexivity|]. rewrite IH. ring. Qed.

Lemma bigsum_zero f n : (forall m, (m < n)%nat -> f m == 0) -> bigsum f n == 0.
Proof. intros H. rewrite (bigsum_ext f (fun _ => 0)) by exact H. apply bigsum_0. Qed.

Lemma bigsum_add f g n : bigsum (fun m => f m + g m) n == bigsum f n + bigsum g n.
Proof. induction n as [|n IH]; cbn [bigsum]; [ring|]. rewrite IH. ring. Qed.

Lemma bigsum_sub f g n : bigsum (fun m => f m - g m) n == bigsum f n - bigsum g n.
Proof. induction n as [|n IH]; cbn [bigsum]; [ring|]. rewrite IH. ring. Qed.

Lemma bigsum_scal a f n : bigsum (fun m => a * f m) n == a * bigsum f n.
Proof. induction n as [|n IH]; cbn [bigsum]; [ring|]. rewrite IH. ring. Qed.

Lemma bigsum_scal_r a f n : bigsum (fun m => f m * a) n == bigsum f n * a.
Proof. induction n as [|n IH]; cbn [bigsum]; [ring|]. rewrite IH. ring. Qed.

Lemma bigsum_swap (f : nat -> nat -> Q) n m :
  bigsum (fun i => bigsum (fun j => f i j) m) n == bigsum (fun j => bigsum (fun i => f i j) n) m.
Proof.
  induction n as [|n IH]; cbn [bigsum].
  - symmetry. apply bigsum_0.
  - rewrite IH. rewrite <- bigsum_add. reflexivity.
Qed.

Lemma bigsum_single f n m0 : (m0 < n)%nat -> (forall m, (m < n)%nat -> m <> m0 -> f m == 0) ->
  bigsum f n == f m0.
Proof.
  induction n as [|n IH]; intros Hm H; [lia|]. cbn [bigsum].
  destruct (Nat.eq_dec m0 n) as [->|Hne].
  - rewrite bigsum_zero; [ring|]. intros m Hmn. apply H; lia.
  - rewrite IH; [|lia|intros; apply H; lia]. rewrite (H n) by lia. ring.
Qed.

Lemma bigsum_tail f n n' : (n <= n')%nat -> (forall m, (n <= m < n')%nat -> f m == 0) ->
  bigsum f n' == bigsum f n.
Proof.
  intros Hle H. induction n' as [|n' IH].
  - replace n with 0%nat by lia. reflexivity.
  - destruct (Nat.eq_dec n (S n')) as [->|Hne]; [reflexivity|].
    cbn [bigsum]. rewrite IH; [|lia|intros; apply H; lia]. rewrite (H n') by lia. ring.
Qed.

(* ------------------------------------------------------------------ polynomials: coefficients *)

Definition shiftc (f : nat -> Q) (m : nat) : Q := match m with O => 0 | S m' => f m' end.

Lemma coef_nil n : coef [] n = 0.
Proof. unfold coef. destruct n; reflexivity. Qed.

Lemma coef_padd p q n : coef (padd p q) n == coef p n + coef q n.
Proof.
  revert q n. induction p as [|a p IH]; intros q n.
  - cbn [padd]. rewrite coef_nil. ring.
  - destruct q as [|b q].
    + cbn [padd]. rewrite coef_nil. ring.
    + cbn [padd]. destruct n as [|n]; unfold coef; cbn [nth]; [reflexivity|]. apply IH.
Qed.

Lemma coef_pscale a p n : coef (pscale a p) n == a * coef p n.
Proof.
  revert n. induction p as [|b p IH]; intros n.
  - unfold pscale; cbn [map]. rewrite coef_nil. ring.
  - destruct n as [|n]; unfold coef, pscale; cbn [map nth]; [reflexivity|]. apply IH.
Qed.

Lemma coef_pX p n : coef (pX p) n = shiftc (coef p) n.
Proof. destruct n; reflexivity. Qed.

Lemma coef_psub p q n : coef (psub p q) n == coef p n - coef q n.
Proof. unfold psub. rewrite coef_padd, coef_pscale. ring. Qed.

Lemma coef_pderiv_from k p n : coef (pderiv_from k p) n == Qn (k + n) * coef p n.
Proof.
  revert k n. induction p as [|a p IH]; intros k n.
  - cbn [pderiv_from]. rewrite !coef_nil. ring.
  - destruct n as [|n]; unfold coef; cbn [pderiv_from nth].
    + rewrite Nat.add_0_r. reflexivity.
    + fold (coef (pderiv_from (S k) p) n). fold (coef p n). rewrite IH.
      replace (S k + n)%nat with (k + S n)%nat by lia. reflexivity.
Qed.

Lemma coef_pderiv p n : coef (pderiv p) n == Qn (S n) * coef p (S n).
Proof.
  destruct p as [|a p]; cbn [pderiv].
  - rewrite !coef_nil. ring.
  - rewrite coef_pderiv_from. reflexivity.
Qed.

Lemma coef_pint_from k p n : coef (pint_from k p) n == coef p n / Qn (k + n).
Proof.
  revert k n. induction p as [|a p IH]; intros k n.
  - cbn [pint_from]. rewrite !coef_nil. unfold Qdiv. ring.
  - destruct n as [|n]; unfold coef; cbn [pint_from nth].
    + rewrite Nat.add_0_r. reflexivity.
    + fold (coef (pint_from (S k) p) n). fold (coef p n). rewrite IH.
      replace (S k + n)%nat with (k + S n)%nat by lia. reflexivity.
Qed.

Lemma coef_pint_0 p : coef (pint p) 0 = 0.
Proof. reflexivity. Qed.

Lemma coef_pint_S p n : coef (pint p) (S n) == coef p n / Qn (S n).
Proof. unfold pint. change (coef (0 :: pint_from 1 p) (S n)) with (coef (pint_from 1 p) n). apply coef_pint_from. Qed.

Lemma coef_pseries basis c n m :
  coef (pseries basis c n) m == bigsum (fun j => c j * coef (basis j) m) n.
Proof.
  induction n as [|n IH]; cbn [pseries bigsum].
  - rewrite coef_nil. reflexivity.
  - rewrite coef_padd, coef_pscale, IH. reflexivity.
Qed.

Global Instance peq_Equivalence : Equivalence peq.
Proof.
  split.
  - intros p n. reflexivity.
  - intros p q H n. symmetry. apply H.
  - intros p q r H1 H2 n. rewrite (H1 n). apply H2.
Qed.

Lemma pderiv_peq p q : peq p q -> peq (pderiv p) (pderiv q).
Proof. intros H n. rewrite !coef_pderiv, (H (S n)). reflexivity. Qed.

(* ------------------------------------------------------------------ polynomials: values *)

Lemma peval_nil x : peval [] x = 0.
Proof. reflexivity. Qed.

Lemma peval_cons a p x : peval (a :: p) x = a + x * peval p x.
Proof. reflexivity. Qed.

Lemma peval_padd p q x : peval (padd p q) x == peval p x + peval q x.
Proof.
  revert q. induction p as [|a p IH]; intros q.
  - cbn [padd]. rewrite peval_nil. ring.
  - destruct q as [|b q]; cbn [padd].
    + rewrite peval_nil. ring.
    + rewrite !peval_cons, IH. ring.
Qed.

Lemma peval_pscale a p x : peval (pscale a p) x == a * peval p x.
Proof.
  induction p as [|b p IH]; unfold pscale; cbn [map].
  - rewrite peval_nil. ring.
  - rewrite !peval_cons. fold (pscale a p). rewrite IH. ring.
Qed.

Lemma peval_pX p x : peval (pX p) x == x * peval p x.
Proof. unfold pX. rewrite peval_cons. ring. Qed.

Lemma peval_psub p q x : peval (psub p q) x == peval p x - peval q x.
Proof. unfold psub. rewrite peval_padd, peval_pscale. ring. Qed.

Lemma peval_all_zero p x : (forall n, coef p n == 0) -> peval p x == 0.
Proof.
  induction p as [|a p IH]; intros H; [reflexivity|].
  rewrite peval_cons. rewrite IH.
  - pose proof (H 0%nat) as H0. unfold coef in H0. cbn [nth] in H0. rewrite H0. ring.
  - intros n. exact (H (S n)).
Qed.

(* coefficientwise equal polynomials have equal values everywhere *)
Lemma peval_peq p q x : peq p q -> peval p x == peval q x.
Proof.
  revert q. induction p as [|a p IH]; intros q H.
  - rewrite peval_nil. symmetry. apply peval_all_zero. intros n. rewrite <- (H n). rewrite coef_nil. reflexivity.
  - destruct q as [|b q].
    + rewrite peval_nil. apply peval_all_zero. intros n. rewrite (H n). rewrite coef_nil. reflexivity.
    + rewrite !peval_cons. rewrite (IH q).
      * pose proof (H 0%nat) as H0. unfold coef in H0. cbn [nth] in H0. rewrite H0. reflexivity.
      * intros n. exact (H (S n)).
Qed.

Lemma peval_pseries basis c n x :
  peval (pseries basis c n) x == bigsum (fun j => c j * peval (basis j) x) n.
Proof.
  induction n as [|n IH]; cbn [pseries bigsum].
  - reflexivity.
  - rewrite peval_padd, peval_pscale, IH. reflexivity.
Qed.

(* product rule for multiplication by X *)
Lemma pderiv_pX p : peq (pderiv (pX p)) (padd p (pX (pderiv p))).
Proof.
  intros n. rewrite coef_pderiv, coef_padd, !coef_pX. cbn [shiftc].
  destruct n as [|n]; cbn [shiftc].
  - rewrite Qn_S, Qn_0. ring.
  - rewrite coef_pderiv. rewrite (Qn_S (S n)). ring.
Qed.

(* fundamental theorem for formal polynomials *)
Lemma pint_pderiv q : forall n, coef (pint (pderiv q)) (S n) == coef q (S n).
Proof.
  intros n. rewrite coef_pint_S, coef_pderiv. field. apply Qn_neq0.
Qed.

Lemma pderiv_pint p : peq (pderiv (pint p)) p.
Proof. intros n. rewrite coef_pderiv, coef_pint_S. field. apply Qn_neq0. Qed.

(* ------------------------------------------------------------------ Chebyshev polynomials: recurrences *)

Lemma cheb_pair_SS p0 p1 n :
  fst (cheb_pair p0 p1 (S (S n))) =
  psub (pscale 2 (pX (fst (cheb_pair p0 p1 (S n))))) (fst (cheb_pair p0 p1 n)).
Proof. cbn [cheb_pair]. destruct (cheb_pair p0 p1 n) as [a b]. reflexivity. Qed.

Lemma chebT_SS n : chebT (S (S n)) = psub (pscale 2 (pX (chebT (S n)))) (chebT n).
Proof. apply cheb_pair_SS. Qed.
Lemma chebU_SS n : chebU (S (S n)) = psub (pscale 2 (pX (chebU (S n)))) (chebU n).
Proof. apply cheb_pair_SS. Qed.

Definition cT (n m : nat) : Q := coef (chebT n) m.
Definition cU (n m : nat) : Q := coef (chebU n) m.

Lemma cT_rec n m : cT (S (S n)) m == 2 * shiftc (cT (S n)) m - cT n m.
Proof. unfold cT. rewrite chebT_SS, coef_psub, coef_pscale, coef_pX. reflexivity. Qed.
Lemma cU_rec n m : cU (S (S n)) m == 2 * shiftc (cU (S n)) m - cU n m.
Proof. unfold cU. rewrite chebU_SS, coef_psub, coef_pscale, coef_pX. reflexivity. Qed.

Lemma cT_0 m : cT 0 m = match m with O => 1 | _ => 0 end.
Proof. destruct m as [|[|m]]; reflexivity. Qed.
Lemma cT_1 m : cT 1 m = match m with S O => 1 | _ => 0 end.
Proof. destruct m as [|[|[|m]]]; reflexivity. Qed.
Lemma cU_0 m : cU 0 m = cT 0 m.
Proof. reflexivity. Qed.
Lemma cU_1 m : cU 1 m == 2 * cT 1 m.
Proof. destruct m as [|[|[|m]]]; vm_compute; reflexivity. Qed.
Lemma cT_1_shift m : cT 1 m = shiftc (cT 0) m.
Proof. destruct m as [|[|[|m]]]; reflexivity. Qed.

(* two-step induction *)
Lemma nat_ind2 (P : nat -> Prop) : P 0%nat -> P 1%nat -> (forall n, P n -> P (S n) -> P (S (S n))) -> forall n, P n.
Proof.
  intros H0 H1 HS n. enough (P n /\ P (S n)) by tauto.
  induction n as [|n [IH1 IH2]]; split; auto.
Qed.

(* U_{n+2} - U_n = 2 T_{n+2} *)
Lemma U_minus_U n : forall m, cU (S (S n)) m - cU n m == 2 * cT (S (S n)) m.
Proof.
  induction n as [| |n IH0 IH1] using nat_ind2; intros m.
  - rewrite cU_rec, cT_rec, cU_0.
    destruct m as [|m]; cbn [shiftc]; [ring|]. rewrite (cU_1 m). ring.
  - rewrite (cU_rec 1), (cT_rec 1).
    destruct m as [|m]; cbn [shiftc].
    + rewrite cU_1, cT_1. ring.
    + (* U_2 = U_0 + 2 T_2 at m *)
      assert (H2 : cU 2 m - cU 0 m == 2 * cT 2 m).
      { rewrite cU_rec, cT_rec, cU_0. destruct m as [|m']; cbn [shiftc]; [ring|]. rewrite (cU_1 m'). ring. }
      rewrite cU_1, (cT_1_shift (S m)). cbn [shiftc]. rewrite cU_0 in H2. lra.
  - pose proof (cU_rec (S (S n)) m) as E1. pose proof (cT_rec (S (S n)) m) as E2. pose proof (cU_rec n m) as E3.
    destruct m as [|m]; cbn [shiftc] in *.
    + pose proof (IH0 0%nat). lra.
    + pose proof (IH0 (S m)). pose proof (IH1 m). lra.
Qed.

(* T_{n+1}' = (n+1) U_n   (coefficient m of the derivative is (m+1) * coefficient m+1) *)
Lemma T_deriv_U n : forall m, Qn (S m) * cT (S n) (S m) == Qn (S n) * cU n m.
Proof.
  induction n as [| |n IH0 IH1] using nat_ind2; intros m.
  - rewrite cT_1, cU_0, cT_0. destruct m as [|m]; [vm_compute; reflexivity | ring].
  - rewrite (cT_rec 0), cU_1, cT_0. cbn [shiftc]. rewrite !cT_1.
    destruct m as [|[|m]]; vm_compute; reflexivity.
  - rewrite (cT_rec (S n) (S m)), (cU_rec n m). cbn [shiftc].
    pose proof (IH0 m) as H0.
    destruct m as [|m]; cbn [shiftc].
    + pose proof (U_minus_U n 0%nat) as HU. pose proof (cU_rec n 0%nat) as E. cbn [shiftc] in E.
      rewrite !Qn_S in *. rewrite Qn_0 in *. lra.
    + pose proof (IH1 m) as H1. pose proof (U_minus_U n (S m)) as HU. pose proof (cU_rec n (S m)) as E.
      cbn [shiftc] in E. rewrite !Qn_S in *. lra.
Qed.

(* ------------------------------------------------------------------ case analysis on matrix entries *)

Lemma even_false_odd x : Nat.even x = false -> Nat.odd x = true.
Proof. intros H. unfold Nat.odd. rewrite H. reflexivity. Qed.
Lemma odd_false_even x : Nat.odd x = false -> Nat.even x = true.
Proof. unfold Nat.odd. destruct (Nat.even x); [reflexivity|discriminate]. Qed.

Ltac parity_norm :=
  repeat match goal with
  | H : Nat.even _ = false |- _ => apply even_false_odd in H
  | H : Nat.odd _ = false |- _ => apply odd_false_even in H
  | H : Nat.even _ = true |- _ => apply Nat.even_spec in H; destruct H as [? H]
  | H : Nat.odd _ = true |- _ => apply Nat.odd_spec in H; destruct H as [? H]
  end.

Ltac split_ifs :=
  repeat match goal with
  | |- context [if ?b then _ else _] => let E := fresh "E" in destruct b eqn:E
  end.

Ltac bool_norm :=
  repeat match goal with
  | H : (_ && _)%bool = true |- _ => apply andb_prop in H; destruct H
  | H : (_ && _)%bool = false |- _ => apply andb_false_iff in H; destruct H
  end.

(* solve an entry identity by exhaustive case analysis; arithmetic side conditions by lia *)
Ltac entries := split_ifs; bool_norm; parity_norm; try (exfalso; lia); try ring.

Ltac bs_single m0 :=
  match goal with |- context [bigsum ?f ?N] => rewrite (bigsum_single f N m0) end.
Ltac bs_zero :=
  match goal with |- context [bigsum ?f ?N] => rewrite (bigsum_zero f N) end.

(* ------------------------------------------------------------------ basis conversion T <-> U *)

Lemma U2T_col_step k n : U2T k (S (S n)) == U2T k n + (if Nat.eqb k (S (S n)) then 2 else 0).
Proof.
  unfold U2T.
  destruct (Nat.eqb k (S (S n))) eqn:E1.
  - apply Nat.eqb_eq in E1. subst k. rewrite Nat.leb_refl, Nat.sub_diag. cbn [Nat.even andb Nat.eqb].
    replace (S (S n) <=? n)%nat with false by (symmetry; apply Nat.leb_gt; lia). cbn [andb]. ring.
  - apply Nat.eqb_neq in E1.
    destruct (k <=? n)%nat eqn:E2.
    + apply Nat.leb_le in E2. replace (k <=? S (S n))%nat with true by (symmetry; apply Nat.leb_le; lia).
      replace (S (S n) - k)%nat with (S (S (n - k))) by lia. cbn [Nat.even andb]. ring.
    + apply Nat.leb_gt in E2. cbn [andb].
      destruct (k <=? S (S n))%nat eqn:E3; cbn [andb]; [|ring].
      apply Nat.leb_le in E3. replace (S (S n) - k)%nat with 1%nat by lia. cbn [Nat.even]. ring.
Qed.

Lemma U2T_sem N n : (n < N)%nat -> forall m, cU n m == bigsum (fun k => U2T k n * cT k m) N.
Proof.
  induction n as [| |n IH0 IH1] using nat_ind2; intros Hn m.
  - bs_single 0%nat.
    + rewrite cU_0. unfold U2T. cbn. ring.
    + lia.
    + intros k Hk Hne. unfold U2T. destruct k; [lia|cbn; ring].
  - bs_single 1%nat.
    + rewrite cU_1. unfold U2T. cbn. ring.
    + lia.
    + intros k Hk Hne. unfold U2T. destruct k as [|[|k]]; [cbn; ring | lia | cbn; ring].
  - rewrite (bigsum_ext _ (fun k => U2T k n * cT k m + (if Nat.eqb k (S (S n)) then 2 else 0) * cT k m)).
    2:{ intros k Hk. rewrite U2T_col_step. ring. }
    rewrite bigsum_add, <- IH0 by lia.
    bs_single (S (S n)).
    + rewrite Nat.eqb_refl. pose proof (U_minus_U n m). lra.
    + lia.
    + intros k Hk Hne. apply Nat.eqb_neq in Hne. rewrite Hne. ring.
Qed.

Lemma T2U_sem N n : (n < N)%nat -> forall m, cT n m == bigsum (fun k => T2U k n * cU k m) N.
Proof.
  intros Hn m.
  rewrite (bigsum_ext _ (fun k => (if Nat.eqb k n then (if Nat.eqb k 0 then 1 else 1 # 2) * cU k m else 0)
                                  + (if Nat.eqb (k + 2) n then - (1 # 2) * cU k m else 0))).
  2:{ intros k Hk. unfold T2U. destruct (Nat.eqb k n) eqn:E1; destruct (Nat.eqb (k + 2) n) eqn:E2; try ring.
      apply Nat.eqb_eq in E1, E2. lia. }
  rewrite bigsum_add.
  rewrite (bigsum_single (fun k => if Nat.eqb k n then _ else 0) N n)
    by (try lia; intros k Hk Hne; apply Nat.eqb_neq in Hne; rewrite Hne; reflexivity).
  rewrite Nat.eqb_refl.
  destruct n as [|[|n]].
  - rewrite (bigsum_zero (fun k => if Nat.eqb (k + 2) 0 then _ else 0))
      by (intros k Hk; destruct (Nat.eqb (k + 2) 0) eqn:E; [apply Nat.eqb_eq in E; lia | reflexivity]).
    cbn [Nat.eqb]. rewrite cU_0. ring.
  - rewrite (bigsum_zero (fun k => if Nat.eqb (k + 2) 1 then _ else 0))
      by (intros k Hk; destruct (Nat.eqb (k + 2) 1) eqn:E; [apply Nat.eqb_eq in E; lia | reflexivity]).
    cbn [Nat.eqb]. rewrite cU_1. ring.
  - rewrite (bigsum_single (fun k => if Nat.eqb (k + 2) (S (S n)) then _ else 0) N n).
    + replace (n + 2)%nat with (S (S n)) by lia. rewrite Nat.eqb_refl. cbn [Nat.eqb].
      pose proof (U_minus_U n m). lra.
    + lia.
    + intros k Hk Hne. destruct (Nat.eqb (k + 2) (S (S n))) eqn:E; [apply Nat.eqb_eq in E; lia | reflexivity].
Qed.

(* ------------------------------------------------------------------ differentiation in the T basis *)

Lemma DT_U2T k j : DT k (S j) == Qn (S j) * U2T k j.
Proof.
  unfold DT, U2T.
  destruct (k <=? j)%nat eqn:E.
  - apply Nat.leb_le in E. replace (k <? S j)%nat with true by (symmetry; apply Nat.ltb_lt; lia).
    replace (S j - k)%nat with (S (j - k)) by lia. rewrite Nat.odd_succ. cbn [andb].
    destruct (Nat.even (j - k)); destruct (Nat.eqb k 0%nat); ring.
  - apply Nat.leb_gt in E. replace (k <? S j)%nat with false by (symmetry; apply Nat.ltb_ge; lia).
    cbn [andb]. ring.
Qed.

Lemma DT_col0 k : DT k 0%nat == 0.
Proof. unfold DT. replace (k <? 0)%nat with false by (symmetry; apply Nat.ltb_ge; lia). reflexivity. Qed.

(* column j of D holds the T-coefficients of T_j' *)
Lemma DT_sem N j : (j < N)%nat -> forall m, Qn (S m) * cT j (S m) == bigsum (fun k => DT k j * cT k m) N.
Proof.
  intros Hj m. destruct j as [|j].
  - rewrite cT_0. bs_zero; [ring|]. intros k Hk. rewrite DT_col0. ring.
  - rewrite T_deriv_U, (U2T_sem N j) by lia. rewrite <- bigsum_scal.
    apply bigsum_ext. intros k Hk. rewrite DT_U2T. ring.
Qed.

(* a matrix whose columns hold the expansion of basis1_j in basis2 converts series *)
Lemma series_convert (b1 b2 : nat -> list Q) (M : mat) N :
  (forall j, (j < N)%nat -> forall m, coef (b1 j) m == bigsum (fun k => M k j * coef (b2 k) m) N) ->
  forall c, peq (pseries b1 c N) (pseries b2 (mv N M c) N).
Proof.
  intros H c m. rewrite !coef_pseries.
  rewrite (bigsum_ext _ (fun j => bigsum (fun k => c j * (M k j * coef (b2 k) m)) N)).
  2:{ intros j Hj. rewrite (H j Hj). rewrite <- bigsum_scal. reflexivity. }
  rewrite bigsum_swap. apply bigsum_ext. intros k Hk. unfold mv.
  rewrite <- bigsum_scal_r. apply bigsum_ext. intros j Hj. ring.
Qed.

Theorem T2U_correct N c : peq (pseries chebT c N) (pseries chebU (mv N T2U c) N).
Proof. apply series_convert. intros j Hj m. apply (T2U_sem N j Hj). Qed.

Theorem U2T_correct N c : peq (pseries chebU c N) (pseries chebT (mv N U2T c) N).
Proof. apply series_convert. intros j Hj m. apply (U2T_sem N j Hj). Qed.

(* (sum_j c_j T_j)' = sum_k (D c)_k T_k *)
Theorem cheb_diff_correct N c : peq (pderiv (pseries chebT c N)) (pseries chebT (mv N DT c) N).
Proof.
  intros m. rewrite coef_pderiv, !coef_pseries.
  rewrite <- bigsum_scal.
  rewrite (bigsum_ext _ (fun j => bigsum (fun k => c j * (DT k j * cT k m)) N)).
  2:{ intros j Hj. rewrite bigsum_scal. rewrite <- (DT_sem N j Hj). unfold cT. ring. }
  rewrite bigsum_swap. apply bigsum_ext. intros k Hk. unfold mv.
  rewrite <- bigsum_scal_r. apply bigsum_ext. intros j Hj. unfold cT. ring.
Qed.

(* ------------------------------------------------------------------ boundary rows *)

Definition vT (n : nat) (x : Q) : Q := peval (chebT n) x.
Definition vdT (n : nat) (x : Q) : Q := peval (pderiv (chebT n)) x.

Lemma vT_rec n x : vT (S (S n)) x == 2 * x * vT (S n) x - vT n x.
Proof. unfold vT. rewrite chebT_SS, peval_psub, peval_pscale, peval_pX. ring. Qed.

Lemma vT_0 x : vT 0 x == 1.
Proof. unfold vT. change (chebT 0) with [1]. rewrite peval_cons, peval_nil. ring. Qed.
Lemma vT_1 x : vT 1 x == x.
Proof. unfold vT. change (chebT 1) with [0; 1]. rewrite !peval_cons, peval_nil. ring. Qed.

Lemma peval_pderiv_peq p q x : peq p q -> peval (pderiv p) x == peval (pderiv q) x.
Proof. intros H. apply peval_peq, pderiv_peq, H. Qed.

Lemma pderiv_padd p q : peq (pderiv (padd p q)) (padd (pderiv p) (pderiv q)).
Proof. intros n. rewrite coef_pderiv, !coef_padd, !coef_pderiv. ring. Qed.
Lemma pderiv_pscale a p : peq (pderiv (pscale a p)) (pscale a (pderiv p)).
Proof. intros n. rewrite coef_pderiv, !coef_pscale, coef_pderiv. ring. Qed.
Lemma pderiv_psub p q : peq (pderiv (psub p q)) (psub (pderiv p) (pderiv q)).
Proof. intros n. rewrite coef_pderiv, !coef_psub, !coef_pderiv. ring. Qed.

Lemma vdT_rec n x : vdT (S (S n)) x == 2 * vT (S n) x + 2 * x * vdT (S n) x - vdT n x.
Proof.
  unfold vdT, vT. rewrite chebT_SS.
  rewrite (peval_peq _ _ x (pderiv_psub _ _)), peval_psub.
  rewrite (peval_peq _ _ x (pderiv_pscale _ _)), peval_pscale.
  rewrite (peval_peq _ _ x (pderiv_pX _)), peval_padd, peval_pX. ring.
Qed.
Lemma vdT_0 x : vdT 0 x == 0.
Proof. reflexivity. Qed.
Lemma vdT_1 x : vdT 1 x == 1.
Proof.
  unfold vdT. change (pderiv (chebT 1)) with [Qn 1 * 1]. rewrite peval_cons, peval_nil.
  change (Qn 1) with 1. ring.
Qed.

Lemma div2_SS n : (S (S n) / 2 = S (n / 2))%nat.
Proof. change (S (S n)) with (1 * 2 + n)%nat. rewrite Nat.div_add_l by lia. reflexivity. Qed.

(* T_n(1) = 1, T_n(-1) = (-1)^n, T_n(0) = 0 / (-1)^(n/2) *)
Lemma dir_row_value b n : vT n (bpt_Q b) == dir_row b n.
Proof.
  induction n as [| |n IH0 IH1] using nat_ind2.
  - rewrite vT_0. destruct b; reflexivity.
  - rewrite vT_1. destruct b; reflexivity.
  - rewrite vT_rec, IH0, IH1. destruct b; cbn [bpt_Q dir_row].
    + rewrite !sgn_S. ring.
    + rewrite Nat.even_succ_succ, div2_SS. destruct (Nat.even n); [rewrite sgn_S|]; ring.
    + ring.
Qed.

Theorem dirichlet_row_is_evaluation N c b :
  peval (pseries chebT c N) (bpt_Q b) == bigsum (fun j => dir_row b j * c j) N.
Proof.
  rewrite peval_pseries. apply bigsum_ext. intros j Hj.
  fold (vT j (bpt_Q b)). rewrite dir_row_value. ring.
Qed.

Lemma neu_row_value b n : b <> B0 -> vdT n (bpt_Q b) == neu_row b n.
Proof.
  intros Hb. induction n as [| |n IH0 IH1] using nat_ind2.
  - rewrite vdT_0. destruct b; reflexivity.
  - rewrite vdT_1. destruct b; reflexivity.
  - rewrite vdT_rec, IH0, IH1, dir_row_value. destruct b; [| congruence |]; cbn [bpt_Q dir_row neu_row].
    + destruct n as [|n].
      * vm_compute. reflexivity.
      * rewrite !sgn_S, !Qn_S. ring.
    + rewrite !Qn_S. ring.
Qed.

Lemma peval_pderiv_pseries basis c n x :
  peval (pderiv (pseries basis c n)) x == bigsum (fun j => c j * peval (pderiv (basis j)) x) n.
Proof.
  induction n as [|n IH]; cbn [pseries bigsum].
  - reflexivity.
  - rewrite (peval_peq _ _ x (pderiv_padd _ _)), peval_padd, IH.
    rewrite (peval_peq _ _ x (pderiv_pscale _ _)), peval_pscale. reflexivity.
Qed.

Theorem neumann_row_is_derivative N c b : b <> B0 ->
  peval (pderiv (pseries chebT c N)) (bpt_Q b) == bigsum (fun j => neu_row b j * c j) N.
Proof.
  intros Hb. rewrite peval_pderiv_pseries. apply bigsum_ext. intros j Hj.
  fold (vdT j (bpt_Q b)). rewrite neu_row_value by exact Hb. ring.
Qed.

(* ------------------------------------------------------------------ integrals *)

Definition pdefint (p : list Q) (a b : Q) : Q := peval (pint p) b - peval (pint p) a.

Lemma pint_peq p q : peq p q -> peq (pint p) (pint q).
Proof.
  intros H [|n]; [reflexivity|]. rewrite !coef_pint_S, (H n). reflexivity.
Qed.
Lemma pint_padd p q : peq (pint (padd p q)) (padd (pint p) (pint q)).
Proof.
  intros [|n]; rewrite coef_padd.
  - rewrite !coef_pint_0. ring.
  - rewrite !coef_pint_S, coef_padd. field. apply Qn_neq0.
Qed.
Lemma pint_pscale a p : peq (pint (pscale a p)) (pscale a (pint p)).
Proof.
  intros [|n]; rewrite coef_pscale.
  - rewrite !coef_pint_0. ring.
  - rewrite !coef_pint_S, coef_pscale. field. apply Qn_neq0.
Qed.

Lemma pdefint_peq p q a b : peq p q -> pdefint p a b == pdefint q a b.
Proof. intros H. unfold pdefint. rewrite !(peval_peq _ _ _ (pint_peq _ _ H)). reflexivity. Qed.

Lemma pdefint_pseries basis c n a b :
  pdefint (pseries basis c n) a b == bigsum (fun j => c j * pdefint (basis j) a b) n.
Proof.
  unfold pdefint. induction n as [|n IH]; cbn [pseries bigsum].
  - change (pint []) with [0]. rewrite !peval_cons, !peval_nil. ring.
  - rewrite !(peval_peq _ _ _ (pint_padd _ _)), !peval_padd.
    rewrite !(peval_peq _ _ _ (pint_pscale _ _)), !peval_pscale.
    rewrite <- IH. ring.
Qed.

(* fundamental theorem: the integral of q' is the difference of the values of q *)
Lemma pint_pderiv_peq q : peq (pint (pderiv q)) (psub q [coef q 0]).
Proof.
  intros [|n]; rewrite coef_psub.
  - rewrite coef_pint_0. unfold coef at 2. cbn [nth]. ring.
  - rewrite pint_pderiv. unfold coef at 3. cbn [nth]. destruct n; ring.
Qed.

Lemma pdefint_pderiv q a b : pdefint (pderiv q) a b == peval q b - peval q a.
Proof.
  unfold pdefint. rewrite !(peval_peq _ _ _ (pint_pderiv_peq q)), !peval_psub, !peval_cons, !peval_nil. ring.
Qed.

(* antiderivative of T_{n+2}:  T_{n+2} = ( T_{n+3}/(n+3) - T_{n+1}/(n+1) )' / 2 *)
Definition antiT (n : nat) : list Q :=
  pscale (1 # 2) (psub (pscale (/ Qn (S (S (S n)))) (chebT (S (S (S n))))) (pscale (/ Qn (S n)) (chebT (S n)))).

Lemma antiT_deriv n : peq (pderiv (antiT n)) (chebT (S (S n))).
Proof.
  intros m. unfold antiT. rewrite coef_pderiv, coef_pscale, coef_psub, !coef_pscale.
  fold (cT (S (S (S n))) (S m)). fold (cT (S n) (S m)). fold (cT (S (S n)) m).
  pose proof (T_deriv_U (S (S n)) m) as H1. pose proof (T_deriv_U n m) as H2.
  pose proof (U_minus_U n m) as H3.
  assert (E1 : Qn (S m) * (/ Qn (S (S (S n))) * cT (S (S (S n))) (S m)) == cU (S (S n)) m).
  { rewrite (Qmult_comm (/ _)), Qmult_assoc, H1. field. apply Qn_neq0. }
  assert (E2 : Qn (S m) * (/ Qn (S n) * cT (S n) (S m)) == cU n m).
  { rewrite (Qmult_comm (/ _)), Qmult_assoc, H2. field. apply Qn_neq0. }
  lra.
Qed.

Lemma integ_row_value n : pdefint (chebT n) (-(1)) 1 == integ_row n.
Proof.
  destruct n as [|[|n]].
  - vm_compute. reflexivity.
  - vm_compute. reflexivity.
  - rewrite <- (pdefint_peq _ _ _ _ (antiT_deriv n)), pdefint_pderiv.
    unfold antiT. rewrite !peval_pscale, !peval_psub, !peval_pscale.
    fold (vT (S (S (S n))) 1) (vT (S n) 1) (vT (S (S (S n))) (-(1))) (vT (S n) (-(1))).
    rewrite (dir_row_value Bp1 (S (S (S n)))), (dir_row_value Bp1 (S n)).
    rewrite (dir_row_value Bm1 (S (S (S n)))), (dir_row_value Bm1 (S n)).
    cbn [dir_row integ_row]. rewrite !sgn_S, !Qn_S.
    pose proof (Qn_nonneg n). field. repeat split; try lra.
    intro E. assert (E' : (Qn n + 1) * (Qn n + 3) == 0) by lra.
    apply Qmult_integral in E'. destruct E'; lra.
Qed.

Theorem integ_row_is_integral N c :
  pdefint (pseries chebT c N) (-(1)) 1 == bigsum (fun j => integ_row j * c j) N.
Proof.
  rewrite pdefint_pseries. apply bigsum_ext. intros j Hj. rewrite integ_row_value. ring.
Qed.

(* get_integration_weights carries the interval map: weights = (L/2) * integral row *)
Lemma wT_integ L n : ~ L == 0 -> wT L n == (L / 2) * integ_row n.
Proof.
  intros HL. unfold wT, integ_row.
  destruct n as [|[|n]].
  - cbn [Nat.ltb Nat.leb]. change (sgn 0) with 1. field. exact HL.
  - cbn [Nat.ltb Nat.leb]. change (sgn 1) with (-(1)). field. exact HL.
  - cbn [Nat.ltb Nat.leb]. rewrite !Qn_S. pose proof (Qn_nonneg n). field. repeat split; try lra.
    intro E. assert (E' : (Qn n + 1) * (Qn n + 3) == 0) by lra.
    apply Qmult_integral in E'. destruct E'; lra.
Qed.

(* ------------------------------------------------------------------ Kronecker products *)

Lemma bigsum_app f a b : bigsum f (a + b) == bigsum f a + bigsum (fun i => f (a + i)%nat) b.
Proof.
  induction b as [|b IH].
  - rewrite Nat.add_0_r. cbn [bigsum]. ring.
  - replace (a + S b)%nat with (S (a + b)) by lia. cbn [bigsum]. rewrite IH. ring.
Qed.

(* a sum over the flattened (row-major) index is the double sum *)
Lemma bigsum_prod (f : nat -> nat -> Q) n1 n2 : (0 < n2)%nat ->
  bigsum (fun r => f (r / n2)%nat (r mod n2)%nat) (n1 * n2) == bigsum (fun i => bigsum (fun j => f i j) n2) n1.
Proof.
  intros Hn. induction n1 as [|n1 IH].
  - reflexivity.
  - replace (S n1 * n2)%nat with (n1 * n2 + n2)%nat by lia.
    rewrite bigsum_app, IH. cbn [bigsum]. apply Qplus_comp; [reflexivity|].
    apply bigsum_ext. intros j Hj.
    replace ((n1 * n2 + j) / n2)%nat with n1
      by (rewrite Nat.div_add_l by lia; rewrite (Nat.div_small j n2) by lia; lia).
    replace ((n1 * n2 + j) mod n2)%nat with j
      by (rewrite (Nat.add_comm (n1 * n2)), Nat.mod_add by lia; rewrite Nat.mod_small by lia; reflexivity).
    reflexivity.
Qed.

(* kron(A, B) applied to a flattened n1 x n2 array X is  sum_{j1, j2} A[i1, j1] B[i2, j2] X[j1, j2] *)
Theorem kron_is_tensor n1 n2 (A B : mat) (X : nat -> nat -> Q) i1 i2 :
  (i2 < n2)%nat ->
  mv (n1 * n2) (kron n2 A B) (fun r => X (r / n2)%nat (r mod n2)%nat) (i1 * n2 + i2)
  == bigsum (fun j1 => bigsum (fun j2 => A i1 j1 * B i2 j2 * X j1 j2) n2) n1.
Proof.
  intros H2. unfold mv, kron.
  replace ((i1 * n2 + i2) / n2)%nat with i1
    by (rewrite Nat.div_add_l by lia; rewrite (Nat.div_small i2 n2) by lia; lia).
  replace ((i1 * n2 + i2) mod n2)%nat with i2
    by (rewrite (Nat.add_comm (i1 * n2)), Nat.mod_add by lia; rewrite Nat.mod_small by lia; reflexivity).
  rewrite (bigsum_prod (fun j1 j2 => A i1 j1 * B i2 j2 * X j1 j2)) by lia. reflexivity.
Qed.

(* expand_matrix_ND: kron(M, I) applies M along the first axis, kron(I, M) along the second *)
Corollary kron_left_identity n1 n2 (A : mat) X i1 i2 : (i2 < n2)%nat ->
  mv (n1 * n2) (kron n2 A mI) (fun r => X (r / n2)%nat (r mod n2)%nat) (i1 * n2 + i2)
  == bigsum (fun j1 => A i1 j1 * X j1 i2) n1.
Proof.
  intros H2. rewrite kron_is_tensor by exact H2. apply bigsum_ext. intros j1 H1.
  rewrite (bigsum_single (fun j2 => A i1 j1 * mI i2 j2 * X j1 j2) n2 i2).
  - unfold mI. rewrite Nat.eqb_refl. ring.
  - exact H2.
  - intros m Hm Hne. unfold mI. replace (Nat.eqb i2 m) with false by (symmetry; apply Nat.eqb_neq; lia). ring.
Qed.

Corollary kron_right_identity n1 n2 (B : mat) X i1 i2 : (i1 < n1)%nat -> (i2 < n2)%nat ->
  mv (n1 * n2) (kron n2 mI B) (fun r => X (r / n2)%nat (r mod n2)%nat) (i1 * n2 + i2)
  == bigsum (fun j2 => B i2 j2 * X i1 j2) n2.
Proof.
  intros H1 H2. rewrite kron_is_tensor by exact H2.
  rewrite (bigsum_single (fun j1 => bigsum (fun j2 => mI i1 j1 * B i2 j2 * X j1 j2) n2) n1 i1).
  - apply bigsum_ext. intros j2 Hj. unfold mI. rewrite Nat.eqb_refl. ring.
  - exact H1.
  - intros m Hm Hne. apply bigsum_zero. intros j2 Hj. unfold mI.
    replace (Nat.eqb i1 m) with false by (symmetry; apply Nat.eqb_neq; lia). ring.
Qed.

(* ------------------------------------------------------------------ conversions are mutually inverse *)

Lemma T2U_col j m : T2U m j == (if Nat.eqb m j then (if Nat.eqb j 0 then 1 else 1 # 2) else 0)
                              + (if Nat.eqb (m + 2) j then - (1 # 2) else 0).
Proof.
  unfold T2U. destruct (Nat.eqb m j) eqn:E1; destruct (Nat.eqb (m + 2) j) eqn:E2; try ring.
  - apply Nat.eqb_eq in E1, E2. lia.
  - apply Nat.eqb_eq in E1. subst. ring.
Qed.

(* U2T * T2U = I  (entries below N) *)
Theorem U2T_T2U_inverse N k j : (k < N)%nat -> (j < N)%nat -> mmul N U2T T2U k j == mI k j.
Proof.
  intros Hk Hj. unfold mmul.
  rewrite (bigsum_ext _ (fun m => (if Nat.eqb m j then U2T k m * (if Nat.eqb j 0 then 1 else 1 # 2) else 0)
                                  + (if Nat.eqb (m + 2) j then U2T k m * - (1 # 2) else 0))).
  2:{ intros m Hm. rewrite T2U_col. destruct (Nat.eqb m j); destruct (Nat.eqb (m + 2) j); ring. }
  rewrite bigsum_add.
  rewrite (bigsum_single (fun m => if Nat.eqb m j then _ else 0) N j)
    by (try lia; intros m Hm Hne; apply Nat.eqb_neq in Hne; rewrite Hne; reflexivity).
  rewrite Nat.eqb_refl.
  destruct j as [|[|j]].
  - rewrite (bigsum_zero (fun m => if Nat.eqb (m + 2) 0 then _ else 0))
      by (intros m Hm; destruct (Nat.eqb (m + 2) 0) eqn:E; [apply Nat.eqb_eq in E; lia | reflexivity]).
    unfold U2T, mI. destruct k; cbn; ring.
  - rewrite (bigsum_zero (fun m => if Nat.eqb (m + 2) 1 then _ else 0))
      by (intros m Hm; destruct (Nat.eqb (m + 2) 1) eqn:E; [apply Nat.eqb_eq in E; lia | reflexivity]).
    unfold U2T, mI. destruct k as [|[|k]]; cbn; ring.
  - rewrite (bigsum_single (fun m => if Nat.eqb (m + 2) (S (S j)) then _ else 0) N j).
    + replace (j + 2)%nat with (S (S j)) by lia. rewrite Nat.eqb_refl. cbn [Nat.eqb].
      rewrite U2T_col_step. unfold mI. destruct (Nat.eqb k (S (S j))); ring.
    + lia.
    + intros m Hm Hne. destruct (Nat.eqb (m + 2) (S (S j))) eqn:E; [apply Nat.eqb_eq in E; lia | reflexivity].
Qed.

Lemma U2T_row_step k j : U2T k j - (if Nat.eqb k 0 then 1 # 2 else 1) * U2T (k + 2)%nat j
                         == if Nat.eqb k j then (if Nat.eqb k 0 then 1 else 2) else 0.
Proof.
  unfold U2T.
  destruct (Nat.eqb k j) eqn:E.
  - apply Nat.eqb_eq in E. subst j. rewrite Nat.leb_refl, Nat.sub_diag.
    replace (k + 2 <=? k)%nat with false by (symmetry; apply Nat.leb_gt; lia).
    cbn [Nat.even andb]. destruct (Nat.eqb k 0); ring.
  - apply Nat.eqb_neq in E.
    destruct (k + 2 <=? j)%nat eqn:E2.
    + apply Nat.leb_le in E2. replace (k <=? j)%nat with true by (symmetry; apply Nat.leb_le; lia).
      replace (j - k)%nat with (S (S (j - (k + 2)))) by lia. cbn [Nat.even andb].
      replace (Nat.eqb (k + 2) 0) with false by (symmetry; apply Nat.eqb_neq; lia).
      destruct (Nat.even (j - (k + 2))); destruct (Nat.eqb k 0); ring.
    + apply Nat.leb_gt in E2. cbn [andb].
      destruct (k <=? j)%nat eqn:E3; cbn [andb].
      * apply Nat.leb_le in E3. replace (j - k)%nat with 1%nat by lia. cbn [Nat.even]. ring.
      * ring.
Qed.

(* T2U * U2T = I *)
Theorem T2U_U2T_inverse N k j : (k < N)%nat -> (j < N)%nat -> mmul N T2U U2T k j == mI k j.
Proof.
  intros Hk Hj. unfold mmul.
  rewrite (bigsum_ext _ (fun m => (if Nat.eqb m k then (if Nat.eqb k 0 then 1 else 1 # 2) * U2T m j else 0)
                                  + (if Nat.eqb m (k + 2) then - (1 # 2) * U2T m j else 0))).
  2:{ intros m Hm. unfold T2U. rewrite (Nat.eqb_sym m k), (Nat.eqb_sym m (k + 2)).
      destruct (Nat.eqb k m) eqn:E1; destruct (Nat.eqb (k + 2) m) eqn:E2; try ring.
      apply Nat.eqb_eq in E1, E2. lia. }
  rewrite bigsum_add.
  rewrite (bigsum_single (fun m => if Nat.eqb m k then _ else 0) N k)
    by (try lia; intros m Hm Hne; apply Nat.eqb_neq in Hne; rewrite Hne; reflexivity).
  rewrite Nat.eqb_refl.
  pose proof (U2T_row_step k j) as HR. unfold mI.
  destruct (Nat.ltb (k + 2) N) eqn:EN.
  - apply Nat.ltb_lt in EN.
    rewrite (bigsum_single (fun m => if Nat.eqb m (k + 2) then _ else 0) N (k + 2)%nat)
      by (try lia; intros m Hm Hne; apply Nat.eqb_neq in Hne; rewrite Hne; reflexivity).
    rewrite Nat.eqb_refl. destruct (Nat.eqb k 0); destruct (Nat.eqb k j); lra.
  - apply Nat.ltb_ge in EN.
    rewrite (bigsum_zero (fun m => if Nat.eqb m (k + 2) then _ else 0))
      by (intros m Hm; destruct (Nat.eqb m (k + 2)) eqn:E; [apply Nat.eqb_eq in E; lia | reflexivity]).
    assert (HZ : U2T (k + 2)%nat j == 0).
    { unfold U2T. replace (k + 2 <=? j)%nat with false by (symmetry; apply Nat.leb_gt; lia). reflexivity. }
    rewrite HZ in HR. destruct (Nat.eqb k 0); destruct (Nat.eqb k j); lra.
Qed.

(* ------------------------------------------------------------------ matrix algebra on entry functions *)

Lemma bigsum_pick2 f N a b : (a < N)%nat -> a <> b ->
  (forall m, (m < N)%nat -> m <> a -> m <> b -> f m == 0) ->
  bigsum f N == f a + (if (b <? N)%nat then f b else 0).
Proof.
  intros Ha Hab H.
  rewrite (bigsum_ext f (fun m => (if Nat.eqb m a then f a else 0) + (if Nat.eqb m b then f b else 0))).
  2:{ intros m Hm. destruct (Nat.eqb m a) eqn:E1; destruct (Nat.eqb m b) eqn:E2.
      - apply Nat.eqb_eq in E1, E2. lia.
      - apply Nat.eqb_eq in E1. subst. ring.
      - apply Nat.eqb_eq in E2. subst. ring.
      - apply Nat.eqb_neq in E1, E2. rewrite H by assumption. ring. }
  rewrite bigsum_add.
  rewrite (bigsum_single (fun m => if Nat.eqb m a then f a else 0) N a)
    by (try lia; intros m Hm Hne; apply Nat.eqb_neq in Hne; rewrite Hne; reflexivity).
  rewrite Nat.eqb_refl. apply Qplus_comp; [reflexivity|].
  destruct (b <? N)%nat eqn:E.
  - apply Nat.ltb_lt in E.
    rewrite (bigsum_single (fun m => if Nat.eqb m b then f b else 0) N b)
      by (try lia; intros m Hm Hne; apply Nat.eqb_neq in Hne; rewrite Hne; reflexivity).
    rewrite Nat.eqb_refl. reflexivity.
  - apply Nat.ltb_ge in E. apply bigsum_zero. intros m Hm.
    destruct (Nat.eqb m b) eqn:E2; [apply Nat.eqb_eq in E2; lia | reflexivity].
Qed.

Definition meq (N : nat) (A B : mat) : Prop := forall k j, (k < N)%nat -> (j < N)%nat -> A k j == B k j.

Lemma mmul_assoc N A B C k j : mmul N (mmul N A B) C k j == mmul N A (mmul N B C) k j.
Proof.
  unfold mmul.
  rewrite (bigsum_ext _ (fun m => bigsum (fun i => A k i * B i m * C m j) N))
    by (intros m Hm; rewrite <- bigsum_scal_r; reflexivity).
  rewrite bigsum_swap. apply bigsum_ext. intros i Hi.
  rewrite <- bigsum_scal. apply bigsum_ext. intros m Hm. ring.
Qed.

Lemma mmul_meq N A A' B B' : meq N A A' -> meq N B B' -> meq N (mmul N A B) (mmul N A' B').
Proof.
  intros HA HB k j Hk Hj. unfold mmul. apply bigsum_ext. intros m Hm.
  rewrite (HA k m Hk Hm), (HB m j Hm Hj). reflexivity.
Qed.

Lemma meq_refl N A : meq N A A.
Proof. intros k j _ _. reflexivity. Qed.
Lemma meq_trans N A B C : meq N A B -> meq N B C -> meq N A C.
Proof. intros H1 H2 k j Hk Hj. rewrite (H1 k j Hk Hj). apply H2; assumption. Qed.
Lemma meq_sym N A B : meq N A B -> meq N B A.
Proof. intros H k j Hk Hj. symmetry. apply H; assumption. Qed.

Lemma mmul_I_r N A : meq N (mmul N A mI) A.
Proof.
  intros k j Hk Hj. unfold mmul.
  rewrite (bigsum_single (fun m => A k m * mI m j) N j).
  - unfold mI. rewrite Nat.eqb_refl. ring.
  - exact Hj.
  - intros m Hm Hne. unfold mI. apply Nat.eqb_neq in Hne. rewrite Hne. ring.
Qed.
Lemma mmul_I_l N A : meq N (mmul N mI A) A.
Proof.
  intros k j Hk Hj. unfold mmul.
  rewrite (bigsum_single (fun m => mI k m * A m j) N k).
  - unfold mI. rewrite Nat.eqb_refl. ring.
  - exact Hk.
  - intros m Hm Hne. unfold mI. replace (Nat.eqb k m) with false by (symmetry; apply Nat.eqb_neq; lia). ring.
Qed.

Lemma mpow_comm N A p : meq N (mmul N A (mpow N A p)) (mmul N (mpow N A p) A).
Proof.
  induction p as [|p IH]; cbn [mpow].
  - eapply meq_trans; [apply mmul_I_r | apply meq_sym, mmul_I_l].
  - intros k j Hk Hj. rewrite mmul_assoc.
    apply (mmul_meq N A A _ _ (meq_refl N A) IH k j Hk Hj).
Qed.

(* p-th derivative: iterate cheb_diff_correct *)
Fixpoint pderiv_n (p : nat) (q : list Q) : list Q := match p with O => q | S p' => pderiv (pderiv_n p' q) end.

Lemma mv_mmul N A B c k : mv N (mmul N A B) c k == mv N A (mv N B c) k.
Proof.
  unfold mv, mmul.
  rewrite (bigsum_ext _ (fun j => bigsum (fun m => A k m * B m j * c j) N))
    by (intros j Hj; rewrite <- bigsum_scal_r; reflexivity).
  rewrite bigsum_swap. apply bigsum_ext. intros m Hm.
  rewrite <- bigsum_scal. apply bigsum_ext. intros j Hj. ring.
Qed.

Lemma pseries_ext basis c c' N : (forall j, (j < N)%nat -> c j == c' j) -> peq (pseries basis c N) (pseries basis c' N).
Proof.
  intros H m. rewrite !coef_pseries. apply bigsum_ext. intros j Hj. rewrite (H j Hj). reflexivity.
Qed.

Lemma mv_I N c k : (k < N)%nat -> mv N mI c k == c k.
Proof.
  intros Hk. unfold mv. rewrite (bigsum_single (fun j => mI k j * c j) N k).
  - unfold mI. rewrite Nat.eqb_refl. ring.
  - exact Hk.
  - intros m Hm Hne. unfold mI. replace (Nat.eqb k m) with false by (symmetry; apply Nat.eqb_neq; lia). ring.
Qed.

Theorem cheb_diff_p_correct N c p :
  peq (pderiv_n p (pseries chebT c N)) (pseries chebT (mv N (mpow N DT p) c) N).
Proof.
  induction p as [|p IH]; cbn [pderiv_n mpow].
  - apply pseries_ext. intros j Hj. symmetry. apply mv_I, Hj.
  - eapply (@Equivalence_Transitive _ _ peq_Equivalence); [apply pderiv_peq, IH|].
    eapply (@Equivalence_Transitive _ _ peq_Equivalence); [apply cheb_diff_correct|].
    apply pseries_ext. intros j Hj. symmetry. apply mv_mmul.
Qed.

(* ------------------------------------------------------------------ ultraspherical = dense Chebyshev after conversion *)

Lemma DT_row_step m j : (1 <= m)%nat ->
  DT m j - DT (m + 2)%nat j == if Nat.eqb j (m + 1) then 2 * Qn j else 0.
Proof.
  intros Hm. unfold DT.
  replace (Nat.eqb m 0) with false by (symmetry; apply Nat.eqb_neq; lia).
  replace (Nat.eqb (m + 2) 0) with false by (symmetry; apply Nat.eqb_neq; lia).
  destruct (m + 2 <? j)%nat eqn:E1.
  - apply Nat.ltb_lt in E1. replace (m <? j)%nat with true by (symmetry; apply Nat.ltb_lt; lia).
    replace (j - m)%nat with (S (S (j - (m + 2)))) by lia. rewrite Nat.odd_succ_succ.
    replace (Nat.eqb j (m + 1)) with false by (symmetry; apply Nat.eqb_neq; lia).
    destruct (Nat.odd (j - (m + 2))); cbn [andb]; ring.
  - apply Nat.ltb_ge in E1. cbn [andb].
    destruct (Nat.eqb j (m + 1)) eqn:E2.
    + apply Nat.eqb_eq in E2. subst j. replace (m <? m + 1)%nat with true by (symmetry; apply Nat.ltb_lt; lia).
      replace (m + 1 - m)%nat with 1%nat by lia. cbn [Nat.odd Nat.even negb andb]. ring.
    + apply Nat.eqb_neq in E2. destruct (m <? j)%nat eqn:E3; cbn [andb]; [|ring].
      apply Nat.ltb_lt in E3. replace (j - m)%nat with 2%nat by lia. cbn [Nat.odd Nat.even negb]. ring.
Qed.

Lemma DT_row_step0 j : DT 0%nat j - (1 # 2) * DT 2%nat j == if Nat.eqb j 1 then Qn j else 0.
Proof.
  unfold DT. cbn [Nat.eqb].
  destruct j as [|[|[|j]]]; try (vm_compute; reflexivity).
  replace (2 <? S (S (S j)))%nat with true by (symmetry; apply Nat.ltb_lt; lia).
  replace (0 <? S (S (S j)))%nat with true by (symmetry; apply Nat.ltb_lt; lia).
  replace (S (S (S j)) - 0)%nat with (S (S (S j))) by lia.
  replace (S (S (S j)) - 2)%nat with (S j) by lia. rewrite Nat.odd_succ_succ.
  cbn [Nat.eqb]. destruct (Nat.odd (S j)); cbn [andb]; ring.
Qed.

Lemma DT_zero_below m j : (j <= m)%nat -> DT m j == 0.
Proof. intros H. unfold DT. replace (m <? j)%nat with false by (symmetry; apply Nat.ltb_ge; lia). reflexivity. Qed.

(* product with a matrix supported on the diagonal and the second upper diagonal *)
Lemma mmul_bidiag N (S X : mat) k j : (k < N)%nat ->
  (forall m, m <> k -> m <> (k + 2)%nat -> S k m == 0) ->
  ((N <= k + 2)%nat -> X (k + 2)%nat j == 0) ->
  mmul N S X k j == S k k * X k j + S k (k + 2)%nat * X (k + 2)%nat j.
Proof.
  intros Hk HS HX. unfold mmul.
  rewrite (bigsum_pick2 (fun m => S k m * X m j) N k (k + 2)) by (try lia; intros m Hm H1 H2; rewrite HS by assumption; ring).
  destruct (k + 2 <? N)%nat eqn:E; [reflexivity|].
  apply Nat.ltb_ge in E. rewrite HX by exact E. ring.
Qed.

Definition ccU (p : nat) : Q := Qpown 2 (p - 1) * factQ (p - 1).

Lemma Qpown_1 p : Qpown 1 p == 1.
Proof. induction p as [|p IH]; cbn [Qpown]; [reflexivity|]. rewrite IH. ring. Qed.

Lemma UD_entry p k j : UD 1 p k j == if Nat.eqb (k + p) j then ccU p * Qn j else 0.
Proof.
  unfold UD, ccU. destruct (Nat.eqb (k + p) j); [|reflexivity]. rewrite Qpown_1. field.
Qed.

Lemma UD_DT N p m j : (j < N)%nat -> mmul N (UD 1 p) DT m j == ccU p * Qn (m + p) * DT (m + p)%nat j.
Proof.
  intros Hj. unfold mmul.
  destruct (m + p <? N)%nat eqn:E.
  - apply Nat.ltb_lt in E.
    rewrite (bigsum_single (fun i => UD 1 p m i * DT i j) N (m + p)%nat).
    + rewrite UD_entry, Nat.eqb_refl. ring.
    + exact E.
    + intros i Hi Hne. rewrite UD_entry. replace (Nat.eqb (m + p) i) with false by (symmetry; apply Nat.eqb_neq; lia). ring.
  - apply Nat.ltb_ge in E. rewrite (DT_zero_below (m + p) j) by lia.
    rewrite bigsum_zero; [ring|]. intros i Hi. rewrite UD_entry.
    replace (Nat.eqb (m + p) i) with false by (symmetry; apply Nat.eqb_neq; lia). ring.
Qed.

Definition UE (p : nat) : mat := match p with O => mI | _ => UD 1 p end.

Lemma ccU_S p : (1 <= p)%nat -> ccU (S p) == 2 * Qn p * ccU p.
Proof.
  intros Hp. unfold ccU. destruct p as [|p]; [lia|].
  replace (S (S p) - 1)%nat with (S p) by lia. replace (S p - 1)%nat with p by lia.
  cbn [Qpown factQ]. ring.
Qed.

Lemma US_support lam k m : m <> k -> m <> (k + 2)%nat -> US lam k m == 0.
Proof.
  intros H1 H2. destruct lam as [|lam]; cbn [US]; unfold T2U.
  - replace (Nat.eqb k m) with false by (symmetry; apply Nat.eqb_neq; lia).
    replace (Nat.eqb (k + 2) m) with false by (symmetry; apply Nat.eqb_neq; lia). reflexivity.
  - replace (Nat.eqb k m) with false by (symmetry; apply Nat.eqb_neq; lia).
    replace (Nat.eqb (k + 2) m) with false by (symmetry; apply Nat.eqb_neq; lia). reflexivity.
Qed.

Lemma ultra_step N p : meq N (mmul N (US p) (mmul N (UE p) DT)) (UE (S p)).
Proof.
  intros k j Hk Hj. destruct p as [|p].
  - (* T2U * D = D_1 *)
    cbn [UE].
    rewrite (mmul_meq N (US 0) (US 0) _ DT (meq_refl N _) (mmul_I_l N DT) k j Hk Hj).
    rewrite mmul_bidiag; [| exact Hk | intros m H1 H2; apply US_support; assumption
                          | intros HN; apply DT_zero_below; lia].
    rewrite UD_entry. cbn [US]. unfold T2U. rewrite Nat.eqb_refl.
    replace (Nat.eqb k (k + 2)) with false by (symmetry; apply Nat.eqb_neq; lia). rewrite Nat.eqb_refl.
    unfold ccU. cbn [Nat.sub Qpown factQ].
    destruct k as [|k].
    + cbn [Nat.add]. change (Nat.eqb 0 0) with true. cbv iota. pose proof (DT_row_step0 j) as H. rewrite (Nat.eqb_sym 1 j).
      destruct (Nat.eqb j 1); lra.
    + change (Nat.eqb (S k) 0) with false. cbv iota. pose proof (DT_row_step (S k) j ltac:(lia)) as H.
      rewrite (Nat.eqb_sym (S k + 1) j). destruct (Nat.eqb j (S k + 1)); lra.
  - cbn [UE].
    rewrite mmul_bidiag; [| exact Hk | intros m H1 H2; apply US_support; assumption
                          | intros HN; rewrite UD_DT by exact Hj; rewrite (DT_zero_below (k + 2 + S p) j) by lia; ring].
    rewrite !UD_DT by exact Hj. rewrite UD_entry. pose proof (ccU_S (S p) ltac:(lia)) as HC.
    cbn [US]. rewrite Nat.eqb_refl.
    replace (Nat.eqb k (k + 2)) with false by (symmetry; apply Nat.eqb_neq; lia). rewrite Nat.eqb_refl.
    pose proof (DT_row_step (k + S p) j ltac:(lia)) as H.
    replace (k + S p + 2)%nat with (k + 2 + S p)%nat in H by lia.
    replace (k + S (S p))%nat with (k + S p + 1)%nat by lia. rewrite (Nat.eqb_sym _ j).
    assert (E1 : Qn (S p) / Qn (S p + k) * (ccU (S p) * Qn (k + S p)) == Qn (S p) * ccU (S p)).
    { replace (S p + k)%nat with (k + S p)%nat by lia. field. replace (k + S p)%nat with (S (k + p)) by lia. apply Qn_neq0. }
    assert (E2 : Qn (S p) / Qn (S p + (k + 2)) * (ccU (S p) * Qn (k + 2 + S p)) == Qn (S p) * ccU (S p)).
    { replace (S p + (k + 2))%nat with (k + 2 + S p)%nat by lia. field.
      replace (k + 2 + S p)%nat with (S (k + 2 + p)) by lia. apply Qn_neq0. }
    destruct (Nat.eqb j (k + S p + 1)).
    + transitivity (Qn (S p) * ccU (S p) * (DT (k + S p)%nat j - DT (k + 2 + S p)%nat j)); [|rewrite H, HC; ring].
      transitivity (Qn (S p) / Qn (S p + k) * (ccU (S p) * Qn (k + S p)) * DT (k + S p)%nat j
                    - Qn (S p) / Qn (S p + (k + 2)) * (ccU (S p) * Qn (k + 2 + S p)) * DT (k + 2 + S p)%nat j); [ring|].
      rewrite E1, E2. ring.
    + transitivity (Qn (S p) * ccU (S p) * (DT (k + S p)%nat j - DT (k + 2 + S p)%nat j)); [|rewrite H; ring].
      transitivity (Qn (S p) / Qn (S p + k) * (ccU (S p) * Qn (k + S p)) * DT (k + S p)%nat j
                    - Qn (S p) / Qn (S p + (k + 2)) * (ccU (S p) * Qn (k + 2 + S p)) * DT (k + 2 + S p)%nat j); [ring|].
      rewrite E1, E2. ring.
Qed.

(* S_{p-1} ... S_0 * D_T^p = D_p  (entries below N), every N, every p >= 1 *)
Theorem ultra_matches_dense_E N p : meq N (mmul N (Ubc N 0 p) (mpow N DT p)) (UE p).
Proof.
  induction p as [|p IH]; cbn [Ubc mpow].
  - cbn [UE]. apply mmul_I_l.
  - cbn [Nat.add].
    (* (S_p Ubc_p) (D D^p) = S_p ((Ubc_p D^p) D) *)
    eapply meq_trans; [| apply ultra_step].
    intros k j Hk Hj. rewrite mmul_assoc.
    apply (mmul_meq N (US p) (US p) _ _ (meq_refl N _)); try assumption.
    intros k' j' Hk' Hj'.
    rewrite (mmul_meq N (Ubc N 0 p) (Ubc N 0 p) _ _ (meq_refl N _) (mpow_comm N DT p) k' j' Hk' Hj').
    rewrite <- mmul_assoc.
    apply (mmul_meq N _ _ DT DT IH (meq_refl N DT)); assumption.
Qed.

Theorem ultra_matches_dense N p : (1 <= p)%nat -> meq N (mmul N (Ubc N 0 p) (mpow N DT p)) (UD 1 p).
Proof. intros Hp. destruct p as [|p]; [lia|]. apply (ultra_matches_dense_E N (S p)). Qed.

Theorem U2T_inverse N k j : (k < N)%nat -> (j < N)%nat ->
  mmul N U2T T2U k j == mI k j /\ mmul N T2U U2T k j == mI k j.
Proof. intros Hk Hj. split; [exact (U2T_T2U_inverse N k j Hk Hj) | exact (T2U_U2T_inverse N k j Hk Hj)]. Qed.

(* ------------------------------------------------------------------ integration matrix (reference interval) *)

(* column j of the T integration matrix below row 0: entries at rows j+1 and j-1 *)
Lemma ST_col fac m j : (1 <= m)%nat ->
  ST fac m j == (if Nat.eqb m (j + 1) then (if Nat.eqb j 0 then 1 else 1 # 2) / Qn m else 0)
                + (if Nat.eqb (m + 1) j then - (1 # 2) / Qn m else 0).
Proof.
  intros Hm. destruct m as [|m]; [lia|]. cbn [ST]. unfold T2U.
  replace (Nat.eqb (S m) (j + 1)) with (Nat.eqb m j) by (destruct (Nat.eqb m j) eqn:E;
    [apply Nat.eqb_eq in E; symmetry; apply Nat.eqb_eq; lia | apply Nat.eqb_neq in E; symmetry; apply Nat.eqb_neq; lia]).
  replace (Nat.eqb (S m + 1) j) with (Nat.eqb (m + 2) j) by (f_equal; lia).
  destruct (Nat.eqb m j) eqn:E1; destruct (Nat.eqb (m + 2) j) eqn:E2.
  - apply Nat.eqb_eq in E1, E2. lia.
  - apply Nat.eqb_eq in E1. subst j. field. apply Qn_neq0.
  - field. apply Qn_neq0.
  - field. apply Qn_neq0.
Qed.

(* D * S = I on the columns j < N - 1 (polynomials of degree < N - 1), every N *)
Theorem cheb_int_is_right_inverse N k j : (k < N)%nat -> (j + 1 < N)%nat -> mmul N DT (ST 1) k j == mI k j.
Proof.
  intros Hk Hj. unfold mmul.
  rewrite (bigsum_ext _ (fun m => (if Nat.eqb m (j + 1) then DT k m * ((if Nat.eqb j 0 then 1 else 1 # 2) / Qn m) else 0)
                                  + (if Nat.eqb (m + 1) j then DT k m * (- (1 # 2) / Qn m) else 0))).
  2:{ intros m Hm. destruct m as [|m].
      - replace (Nat.eqb 0 (j + 1)) with false by (symmetry; apply Nat.eqb_neq; lia).
        destruct (Nat.eqb (0 + 1) j); rewrite !(DT_col0 k); ring.
      - rewrite ST_col by lia. destruct (Nat.eqb (S m) (j + 1)); destruct (Nat.eqb (S m + 1) j); ring. }
  rewrite bigsum_add.
  rewrite (bigsum_single (fun m => if Nat.eqb m (j + 1) then _ else 0) N (j + 1)%nat)
    by (try lia; intros m Hm Hne; apply Nat.eqb_neq in Hne; rewrite Hne; reflexivity).
  rewrite Nat.eqb_refl. replace (j + 1)%nat with (S j) by lia. rewrite DT_U2T.
  destruct j as [|[|j]].
  - rewrite (bigsum_zero (fun m => if Nat.eqb (m + 1) 0 then _ else 0))
      by (intros m Hm; destruct (Nat.eqb (m + 1) 0) eqn:E; [apply Nat.eqb_eq in E; lia | reflexivity]).
    unfold U2T, mI. destruct k; vm_compute; reflexivity.
  - rewrite (bigsum_single (fun m => if Nat.eqb (m + 1) 1 then _ else 0) N 0%nat).
    + cbn [Nat.eqb Nat.add]. rewrite (DT_col0 k). unfold U2T, mI. destruct k as [|[|k]]; vm_compute; reflexivity.
    + lia.
    + intros m Hm Hne. destruct (Nat.eqb (m + 1) 1) eqn:E; [apply Nat.eqb_eq in E; lia | reflexivity].
  - rewrite (bigsum_single (fun m => if Nat.eqb (m + 1) (S (S j)) then _ else 0) N (S j)).
    + replace (S j + 1)%nat with (S (S j)) by lia. rewrite Nat.eqb_refl. rewrite DT_U2T.
      change (Nat.eqb (S (S j)) 0) with false. cbv iota.
      rewrite U2T_col_step. unfold mI.
      assert (H1 : ~ Qn (S (S (S j))) == 0) by apply Qn_neq0.
      assert (H2 : ~ Qn (S j) == 0) by apply Qn_neq0.
      destruct (Nat.eqb k (S (S j))); field; auto.
    + lia.
    + intros m Hm Hne. destruct (Nat.eqb (m + 1) (S (S j))) eqn:E; [apply Nat.eqb_eq in E; lia | reflexivity].
Qed.

(* consequence: differentiating the integrated series returns the series (degree < N - 1) *)
Theorem cheb_int_then_diff N c : (1 <= N)%nat -> c (N - 1)%nat == 0 ->
  peq (pderiv (pseries chebT (mv N (ST 1) c) N)) (pseries chebT c N).
Proof.
  intros HN Hc.
  eapply (@Equivalence_Transitive _ _ peq_Equivalence); [apply cheb_diff_correct|].
  apply pseries_ext. intros k Hk. rewrite <- mv_mmul. unfold mv.
  rewrite (bigsum_ext _ (fun j => mI k j * c j)).
  - apply (mv_I N c k Hk).
  - intros j Hj. destruct (Nat.eq_dec j (N - 1)) as [->|Hne].
    + rewrite Hc. ring.
    + rewrite cheb_int_is_right_inverse by lia. reflexivity.
Qed.

(* ------------------------------------------------------------------ the evaluated tables are the matrices above *)

Lemma Qnum0 q : (Qnum q =? 0)%Z = true -> q == 0.
Proof. intros H. apply Z.eqb_eq in H. unfold Qeq. cbn. rewrite H. reflexivity. Qed.

Lemma qadd_fast_eq a b : qadd_fast a b == a + b.
Proof.
  unfold qadd_fast. destruct (Qnum b =? 0)%Z eqn:Eb.
  - rewrite (Qnum0 b Eb). ring.
  - destruct (Qnum a =? 0)%Z eqn:Ea.
    + rewrite (Qnum0 a Ea). ring.
    + apply Qred_correct.
Qed.

Lemma vaxpy_length a x y : length (vaxpy a x y) = length y.
Proof.
  revert y. induction x as [|xi x IH]; intros [|yi y]; cbn [vaxpy length]; try reflexivity.
  rewrite IH. reflexivity.
Qed.

Lemma vaxpy_nth a x y j : length x = length y -> nth j (vaxpy a x y) 0 == nth j y 0 + a * nth j x 0.
Proof.
  revert y j. induction x as [|xi x IH]; intros [|yi y] j Hl; cbn [length] in Hl; try discriminate.
  - cbn [vaxpy]. destruct j; cbn [nth]; ring.
  - cbn [vaxpy]. destruct j as [|j]; cbn [nth].
    + destruct (Qnum xi =? 0)%Z eqn:E.
      * rewrite (Qnum0 xi E). ring.
      * apply qadd_fast_eq.
    + apply IH. lia.
Qed.

Definition lstep (arow : nat -> Q) (acc : list Q) (mb : nat * list Q) : list Q :=
  let a := arow (fst mb) in if (Qnum a =? 0)%Z then acc else vaxpy a (snd mb) acc.

Lemma lstep_length arow acc mb : length (lstep arow acc mb) = length acc.
Proof. unfold lstep. destruct (Qnum (arow (fst mb)) =? 0)%Z; [reflexivity | apply vaxpy_length]. Qed.

Lemma lstep_nth arow acc mb j : length (snd mb) = length acc ->
  nth j (lstep arow acc mb) 0 == nth j acc 0 + arow (fst mb) * nth j (snd mb) 0.
Proof.
  intros Hl. unfold lstep. destruct (Qnum (arow (fst mb)) =? 0)%Z eqn:E.
  - rewrite (Qnum0 _ E). ring.
  - apply vaxpy_nth. exact Hl.
Qed.

Fixpoint lsum (arow : nat -> Q) (l : list (nat * list Q)) (j : nat) : Q :=
  match l with [] => 0 | mb :: l' => arow (fst mb) * nth j (snd mb) 0 + lsum arow l' j end.

Lemma fold_lstep arow l : forall acc j, (forall mb, In mb l -> length (snd mb) = length acc) ->
  length (fold_left (lstep arow) l acc) = length acc /\
  nth j (fold_left (lstep arow) l acc) 0 == nth j acc 0 + lsum arow l j.
Proof.
  induction l as [|mb l IH]; intros acc j H; cbn [fold_left lsum].
  - split; [reflexivity | ring].
  - destruct (IH (lstep arow acc mb) j) as [IL IN].
    { intros mb' Hin. rewrite lstep_length. apply H. right. exact Hin. }
    split.
    + rewrite IL. apply lstep_length.
    + rewrite IN, lstep_nth by (apply H; left; reflexivity). ring.
Qed.

Lemma bigsum_front f n : bigsum f (S n) == f 0%nat + bigsum (fun i => f (S i)) n.
Proof.
  induction n as [|n IH].
  - cbn [bigsum]. ring.
  - cbn [bigsum] in *. rewrite IH. ring.
Qed.

Lemma lsum_combine arow j : forall n s (B : list (list Q)), length B = n ->
  lsum arow (combine (seq s n) B) j == bigsum (fun i => arow (s + i)%nat * nth j (nth i B []) 0) n.
Proof.
  induction n as [|n IH]; intros s B HB.
  - reflexivity.
  - destruct B as [|b B]; [discriminate|]. cbn [seq combine lsum fst snd].
    rewrite bigsum_front. rewrite (IH (S s) B) by (cbn in HB; lia).
    rewrite Nat.add_0_r. cbn [nth]. apply Qplus_comp; [reflexivity|].
    apply bigsum_ext. intros i Hi. replace (S s + i)%nat with (s + S i)%nat by lia. reflexivity.
Qed.

Definition wf_tab (N : nat) (t : list (list Q)) : Prop := length t = N /\ forall r, In r t -> length r = N.

Lemma nth_repeat0 j n : nth j (repeat 0 n) 0 = 0.
Proof. revert j. induction n as [|n IH]; intros [|j]; cbn; auto. Qed.

Lemma lrow_spec N arow B j : wf_tab N B ->
  length (lrow N arow B) = N /\
  nth j (lrow N arow B) 0 == bigsum (fun m => arow m * tget B m j) N.
Proof.
  intros [HL HR].
  assert (E : lrow N arow B = fold_left (lstep arow) (combine (seq 0 N) B) (repeat 0 N)) by reflexivity.
  rewrite E.
  destruct (fold_lstep arow (combine (seq 0 N) B) (repeat 0 N) j) as [IL IN].
  { intros mb Hin. rewrite repeat_length. destruct mb as [m b]. apply in_combine_r in Hin. apply HR, Hin. }
  split.
  - rewrite IL. apply repeat_length.
  - rewrite IN, nth_repeat0, lsum_combine by exact HL. unfold tget. cbn [Nat.add]. ring.
Qed.

Lemma lmul_spec N A B : wf_tab N B ->
  wf_tab N (lmul N A B) /\ meq N (tget (lmul N A B)) (mmul N A (tget B)).
Proof.
  intros HB. unfold lmul. split; [split|].
  - rewrite map_length, seq_length. reflexivity.
  - intros r Hin. apply in_map_iff in Hin. destruct Hin as [k [<- _]]. apply (lrow_spec N (A k) B 0%nat HB).
  - intros k j Hk Hj. unfold tget.
    rewrite (nth_indep _ [] (lrow N (A 0%nat) B)) by (rewrite map_length, seq_length; exact Hk).
    rewrite (map_nth (fun k => lrow N (A k) B) (seq 0 N) 0%nat k), seq_nth by exact Hk. cbn [Nat.add].
    apply (lrow_spec N (A k) B j HB).
Qed.

Lemma tab_wf N M : wf_tab N (tab N M).
Proof.
  unfold tab. split.
  - rewrite map_length, seq_length. reflexivity.
  - intros r Hin. apply in_map_iff in Hin. destruct Hin as [k [<- _]]. rewrite map_length, seq_length. reflexivity.
Qed.

Lemma tget_tab N M : meq N (tget (tab N M)) M.
Proof.
  intros k j Hk Hj. unfold tget, tab.
  rewrite (nth_indep _ [] (map (fun j => M 0%nat j) (seq 0 N))) by (rewrite map_length, seq_length; exact Hk).
  rewrite (map_nth (fun k => map (fun j => M k j) (seq 0 N)) (seq 0 N) 0%nat k), seq_nth by exact Hk.
  rewrite (nth_indep _ 0 (M (0 + k)%nat 0%nat)) by (rewrite map_length, seq_length; exact Hj).
  rewrite (map_nth (fun j => M (0 + k)%nat j) (seq 0 N) 0%nat j), seq_nth by exact Hj. reflexivity.
Qed.

Lemma lpow_spec N A p : wf_tab N (lpow N A p) /\ meq N (tget (lpow N A p)) (mpow N A p).
Proof.
  induction p as [|p [IW IM]]; cbn [lpow mpow].
  - split; [apply tab_wf | apply tget_tab].
  - destruct (lmul_spec N A (lpow N A p) IW) as [W M]. split; [exact W|].
    eapply meq_trans; [exact M|]. apply mmul_meq; [apply meq_refl | exact IM].
Qed.

Lemma tget_map2 (f : Q -> Q) t k j N : wf_tab N t -> (k < N)%nat -> (j < N)%nat ->
  tget (map (map f) t) k j = f (tget t k j).
Proof.
  intros [HL HR] Hk Hj. unfold tget.
  rewrite (nth_indep _ [] (map f [])) by (rewrite map_length; lia).
  rewrite (map_nth (map f) t [] k).
  assert (Hr : length (nth k t []) = N) by (apply HR, nth_In; lia).
  rewrite (nth_indep _ 0 (f 0)) by (rewrite map_length; lia).
  rewrite (map_nth f (nth k t []) 0 j). reflexivity.
Qed.

(* the tables the kernel compares with the live code are the matrices of the theorems *)
Theorem DTp_tab_correct N fac p : meq N (tget (DTp_tab N fac p)) (DTp N fac p).
Proof.
  intros k j Hk Hj. unfold DTp_tab, DTp. destruct (lpow_spec N DT p) as [W M].
  rewrite (tget_map2 _ _ k j N W Hk Hj). rewrite (M k j Hk Hj). unfold Qdiv. reflexivity.
Qed.

Lemma Ubc_tab_spec N lo d : wf_tab N (Ubc_tab N lo d) /\ meq N (tget (Ubc_tab N lo d)) (Ubc N lo d).
Proof.
  induction d as [|d [IW IM]]; cbn [Ubc_tab Ubc].
  - split; [apply tab_wf | apply tget_tab].
  - destruct (lmul_spec N (US (lo + d)) (Ubc_tab N lo d) IW) as [W M]. split; [exact W|].
    eapply meq_trans; [exact M|]. apply mmul_meq; [apply meq_refl | exact IM].
Qed.
Theorem Ubc_tab_correct N lo d : meq N (tget (Ubc_tab N lo d)) (Ubc N lo d).
Proof. apply Ubc_tab_spec. Qed.

Lemma Ubc_inv_tab_spec N d : forall lo, wf_tab N (Ubc_inv_tab N lo d) /\ meq N (tget (Ubc_inv_tab N lo d)) (Ubc_inv N lo d).
Proof.
  induction d as [|d IH]; intros lo; cbn [Ubc_inv_tab Ubc_inv].
  - split; [apply tab_wf | apply tget_tab].
  - destruct (IH (S lo)) as [IW IM].
    destruct (lmul_spec N (USinv lo) (Ubc_inv_tab N (S lo) d) IW) as [W M]. split; [exact W|].
    eapply meq_trans; [exact M|]. apply mmul_meq; [apply meq_refl | exact IM].
Qed.
Theorem Ubc_inv_tab_correct N lo d : meq N (tget (Ubc_inv_tab N lo d)) (Ubc_inv N lo d).
Proof. apply Ubc_inv_tab_spec. Qed.

(* shift-based dyadic alignment = Base.Dyadic alignment *)
Lemma falign_eq a b : falign a b = dalign a b.
Proof.
  unfold falign, dalign. rewrite !Z.shiftl_mul_pow2 by lia. reflexivity.
Qed.
Lemma fadd_eq a b : fadd a b = dadd a b.
Proof. unfold fadd, dadd. rewrite falign_eq. reflexivity. Qed.
Lemma fsub_eq a b : fsub a b = dsub a b.
Proof. unfold fsub, dsub. apply fadd_eq. Qed.
Lemma fleb_eq a b : fleb a b = dleb a b.
Proof. unfold fleb, dleb. rewrite falign_eq. reflexivity. Qed.
Lemma fltb_eq a b : fltb a b = dltb a b.
Proof. unfold fltb, dltb. rewrite falign_eq. reflexivity. Qed.

(* ------------------------------------------------------------------ inverse of S_lam (backward basis change) *)

Lemma USinv_zero lam k j : (j < k)%nat -> USinv lam k j == 0.
Proof.
  intros H. destruct lam; cbn [USinv]; unfold U2T;
    replace (k <=? j)%nat with false by (symmetry; apply Nat.leb_gt; lia); reflexivity.
Qed.

Lemma USinv_row_step lam k j : (1 <= lam)%nat ->
  USinv lam k j / Qn (lam + k) - USinv lam (k + 2)%nat j / Qn (lam + (k + 2))
  == if Nat.eqb k j then 1 / Qn lam else 0.
Proof.
  intros Hl. destruct lam as [|lam]; [lia|]. cbn [USinv].
  assert (H1 : ~ Qn (S lam + k) == 0) by (replace (S lam + k)%nat with (S (lam + k)) by lia; apply Qn_neq0).
  assert (H2 : ~ Qn (S lam + (k + 2)) == 0) by (replace (S lam + (k + 2))%nat with (S (lam + (k + 2))) by lia; apply Qn_neq0).
  assert (H3 : ~ Qn (S lam) == 0) by apply Qn_neq0.
  destruct (Nat.eqb k j) eqn:E.
  - apply Nat.eqb_eq in E. subst j. rewrite Nat.leb_refl, Nat.sub_diag.
    replace (k + 2 <=? k)%nat with false by (symmetry; apply Nat.leb_gt; lia).
    cbn [Nat.even andb]. field. auto.
  - apply Nat.eqb_neq in E.
    destruct (k + 2 <=? j)%nat eqn:E2.
    + apply Nat.leb_le in E2. replace (k <=? j)%nat with true by (symmetry; apply Nat.leb_le; lia).
      replace (j - k)%nat with (S (S (j - (k + 2)))) by lia. cbn [Nat.even andb].
      destruct (Nat.even (j - (k + 2))); field; auto.
    + apply Nat.leb_gt in E2. cbn [andb].
      destruct (k <=? j)%nat eqn:E3; cbn [andb].
      * apply Nat.leb_le in E3. replace (j - k)%nat with 1%nat by lia. cbn [Nat.even]. field; auto.
      * field; auto.
Qed.

(* S_lam * S_lam^-1 = I, every lam, every N *)
Theorem US_USinv N lam : meq N (mmul N (US lam) (USinv lam)) mI.
Proof.
  destruct lam as [|lam].
  - intros k j Hk Hj. apply (T2U_U2T_inverse N k j Hk Hj).
  - intros k j Hk Hj.
    rewrite mmul_bidiag; [| exact Hk | intros m H1 H2; apply US_support; assumption
                          | intros HN; apply USinv_zero; lia].
    pose proof (USinv_row_step (S lam) k j ltac:(lia)) as H.
    cbn [US]. rewrite Nat.eqb_refl.
    replace (Nat.eqb k (k + 2)) with false by (symmetry; apply Nat.eqb_neq; lia). rewrite Nat.eqb_refl.
    unfold mI. assert (H3 : ~ Qn (S lam) == 0) by apply Qn_neq0.
    transitivity (Qn (S lam) * (USinv (S lam) k j / Qn (S lam + k) - USinv (S lam) (k + 2)%nat j / Qn (S lam + (k + 2)))).
    + unfold Qdiv. ring.
    + rewrite H. destruct (Nat.eqb k j); field; auto.
Qed.

Lemma mmul_assoc_meq N A B C : meq N (mmul N (mmul N A B) C) (mmul N A (mmul N B C)).
Proof. intros k j _ _. apply mmul_assoc. Qed.

Lemma Ubc_bottom N d : forall lo, meq N (Ubc N lo (S d)) (mmul N (Ubc N (S lo) d) (US lo)).
Proof.
  induction d as [|d IH]; intros lo.
  - cbn [Ubc]. rewrite Nat.add_0_r.
    eapply meq_trans; [apply mmul_I_r | apply meq_sym, mmul_I_l].
  - change (Ubc N lo (S (S d))) with (mmul N (US (lo + S d)) (Ubc N lo (S d))).
    change (Ubc N (S lo) (S d)) with (mmul N (US (S lo + d)) (Ubc N (S lo) d)).
    replace (S lo + d)%nat with (lo + S d)%nat by lia.
    eapply meq_trans; [apply mmul_meq; [apply meq_refl | apply IH]|].
    apply meq_sym, mmul_assoc_meq.
Qed.

(* forward and backward basis changes are mutually inverse: (S_{lo+d-1} ... S_lo) (S_lo^-1 ... S_{lo+d-1}^-1) = I *)
Theorem Ubc_Ubc_inv N d : forall lo, meq N (mmul N (Ubc N lo d) (Ubc_inv N lo d)) mI.
Proof.
  induction d as [|d IH]; intros lo.
  - cbn [Ubc Ubc_inv]. apply mmul_I_l.
  - change (Ubc_inv N lo (S d)) with (mmul N (USinv lo) (Ubc_inv N (S lo) d)).
    eapply meq_trans; [apply mmul_meq; [apply Ubc_bottom | apply meq_refl]|].
    eapply meq_trans; [apply mmul_assoc_meq|].
    eapply meq_trans; [| apply (IH (S lo))].
    apply mmul_meq; [apply meq_refl|].
    eapply meq_trans; [apply meq_sym, mmul_assoc_meq|].
    eapply meq_trans; [apply mmul_meq; [apply US_USinv | apply meq_refl]|].
    apply mmul_I_l.
Qed.

(* ------------------------------------------------------------------ Fourier *)

(* fftfreq ordering: the wavenumber of index j is the representative of j mod N in [-N/2, N/2) *)
Theorem wavenum_spec N j : (j < N)%nat ->
  ((wavenum N j - Z.of_nat j) mod Z.of_nat N = 0 /\ - Z.of_nat N <= 2 * wavenum N j < Z.of_nat N)%Z.
Proof.
  intros Hj. unfold wavenum. destruct (2 * j <? N)%nat eqn:E.
  - apply Nat.ltb_lt in E. split; [rewrite Z.sub_diag; apply Z.mod_0_l; lia | lia].
  - apply Nat.ltb_ge in E. split; [|lia].
    replace (Z.of_nat j - Z.of_nat N - Z.of_nat j)%Z with (-1 * Z.of_nat N)%Z by lia.
    apply Z.mod_mul. lia.
Qed.

Lemma wavenum_unique N j k : (j < N)%nat ->
  ((k - Z.of_nat j) mod Z.of_nat N = 0 -> - Z.of_nat N <= 2 * k < Z.of_nat N -> k = wavenum N j)%Z.
Proof.
  intros Hj Hm Hr. destruct (wavenum_spec N j Hj) as [Hm' Hr'].
  apply Z.mod_divide in Hm; [|lia]. apply Z.mod_divide in Hm'; [|lia].
  destruct Hm as [a Ha]. destruct Hm' as [b Hb].
  destruct (Z.eq_dec a b) as [->|Hne]; [lia|].
  exfalso. assert (Hc : (a - b >= 1 \/ a - b <= -1)%Z) by lia.
  assert (Hd : (k - wavenum N j = (a - b) * Z.of_nat N)%Z) by lia.
  destruct Hc; nia.
Qed.

Lemma wavenum_nyquist N : Nat.even N = true -> (0 < N)%nat -> wavenum N (nyquist N) = (- Z.of_nat (N / 2))%Z.
Proof.
  intros He HN. apply Nat.even_spec in He. destruct He as [h Hh]. unfold wavenum, nyquist. subst N.
  replace (2 * h / 2)%nat with h by (rewrite Nat.mul_comm, Nat.div_mul; lia).
  replace (2 * h <? 2 * h)%nat with false by (symmetry; apply Nat.ltb_ge; lia). lia.
Qed.

Definition ceq (a b : C) : Prop := fst a == fst b /\ snd a == snd b.

Lemma cmul_i_k k (z : C) : ceq (cmul (0, k) z) (- k * snd z, k * fst z).
Proof. unfold ceq, cmul. cbn [fst snd]. split; ring. Qed.

(* (i k)^p cycles through k^p * (1, i, -1, -i) *)
Theorem FD_power k p : ceq (cpow (0, k) p)
  (match (p mod 4)%nat with 0%nat => (Qpown k p, 0) | 1%nat => (0, Qpown k p) | 2%nat => (- Qpown k p, 0) | _ => (0, - Qpown k p) end).
Proof.
  induction p as [|p IH].
  - cbn. split; reflexivity.
  - cbn [cpow Qpown]. destruct IH as [I1 I2]. unfold ceq, cmul. cbn [fst snd]. rewrite I1, I2.
    assert (Hm : (S p mod 4 = S (p mod 4) /\ p mod 4 < 3)%nat \/ (S p mod 4 = 0 /\ p mod 4 = 3)%nat).
    { pose proof (Nat.div_mod p 4 ltac:(lia)) as H1. pose proof (Nat.mod_upper_bound p 4 ltac:(lia)) as H2.
      pose proof (Nat.div_mod (S p) 4 ltac:(lia)) as H3. pose proof (Nat.mod_upper_bound (S p) 4 ltac:(lia)) as H4. lia. }
    destruct Hm as [[-> Hlt]|[-> ->]].
    + destruct (p mod 4)%nat as [|[|[|q]]]; cbn [fst snd]; try lia; split; ring.
    + cbn [fst snd]. split; ring.
Qed.

(* integration inverts differentiation on every non-constant mode *)
Theorem FS_FD_inverse k p : ~ k == 0 -> ceq (cmul (cpow (cinv (0, k)) p) (cpow (0, k) p)) (1, 0).
Proof.
  intros Hk. induction p as [|p [I1 I2]].
  - cbn. split; reflexivity.
  - cbn [cpow]. unfold ceq, cmul, cinv in *. cbn [fst snd] in *.
    set (a := fst (cpow (0 / (0 * 0 + k * k), - k / (0 * 0 + k * k)) p)) in *.
    set (b := snd (cpow (0 / (0 * 0 + k * k), - k / (0 * 0 + k * k)) p)) in *.
    set (c := fst (cpow (0, k) p)) in *. set (d := snd (cpow (0, k) p)) in *.
    split.
    + transitivity (a * c - b * d); [field; exact Hk | exact I1].
    + transitivity (a * d + b * c); [field; exact Hk | exact I2].
Qed.

(* ------------------------------------------------------------------ Gegenbauer bases: validated for degree < 64 *)

Definition peqb (p q : list Q) : bool :=
  forallb (fun m => Qeq_bool (coef p m) (coef q m)) (seq 0 (Nat.max (length p) (length q))).

Lemma coef_beyond p m : (length p <= m)%nat -> coef p m = 0.
Proof. intros H. unfold coef. apply nth_overflow. exact H. Qed.

Lemma peqb_sound p q : peqb p q = true -> peq p q.
Proof.
  intros H m. unfold peqb in H. rewrite forallb_forall in H.
  destruct (Nat.lt_ge_cases m (Nat.max (length p) (length q))) as [Hlt|Hge].
  - apply Qeq_bool_iff. apply H. apply in_seq. lia.
  - rewrite !coef_beyond by lia. reflexivity.
Qed.

(* d^p/dx^p T_j in the C^(p) basis: column j of the ultraspherical D_p *)
Definition ultra_col (p j : nat) : list Q :=
  if (p <=? j)%nat then pscale (ccU p * Qn j) (geg p (j - p)) else [].
Definition ultra_col_ok (p j : nat) : bool := peqb (pderiv_n p (chebT j)) (ultra_col p j).
(* C^(lam)_j in the C^(lam+1) basis: column j of S_lam *)
Definition S_col (lam j : nat) : list Q :=
  psub (pscale (Qn lam / Qn (lam + j)) (geg (S lam) j))
       (if (2 <=? j)%nat then pscale (Qn lam / Qn (lam + j)) (geg (S lam) (j - 2)) else []).
Definition S_col_ok (lam j : nat) : bool := peqb (geg lam j) (S_col lam j).
Definition geg1_ok (j : nat) : bool := peqb (geg 1 j) (chebU j).

Lemma gegenbauer_checked_64 :
  forallb (fun j => ultra_col_ok 1 j && ultra_col_ok 2 j && ultra_col_ok 3 j && S_col_ok 1 j && S_col_ok 2 j && geg1_ok j)
          (seq 0 64) = true.
Proof. vm_compute. reflexivity. Qed.

Lemma checked_64 j : (j < 64)%nat ->
  ultra_col_ok 1 j = true /\ ultra_col_ok 2 j = true /\ ultra_col_ok 3 j = true /\
  S_col_ok 1 j = true /\ S_col_ok 2 j = true /\ geg1_ok j = true.
Proof.
  intros Hj. pose proof gegenbauer_checked_64 as H. rewrite forallb_forall in H.
  specialize (H j ltac:(apply in_seq; lia)). repeat (apply andb_prop in H; destruct H as [H ?]). tauto.
Qed.

Lemma pderiv_n_peq p q1 q2 : peq q1 q2 -> peq (pderiv_n p q1) (pderiv_n p q2).
Proof. intros H. induction p as [|p IH]; cbn [pderiv_n]; [exact H | apply pderiv_peq, IH]. Qed.

Lemma pderiv_pseries basis c n : peq (pderiv (pseries basis c n)) (pseries (fun j => pderiv (basis j)) c n).
Proof.
  intros m. rewrite coef_pderiv, !coef_pseries, <- bigsum_scal. apply bigsum_ext. intros j Hj.
  rewrite coef_pderiv. ring.
Qed.

Lemma pderiv_n_pseries p basis c n :
  peq (pderiv_n p (pseries basis c n)) (pseries (fun j => pderiv_n p (basis j)) c n).
Proof.
  induction p as [|p IH]; cbn [pderiv_n].
  - reflexivity.
  - eapply (@Equivalence_Transitive _ _ peq_Equivalence); [apply pderiv_peq, IH|]. apply pderiv_pseries.
Qed.

Lemma pseries_basis_ext b1 b2 c N : (forall j, (j < N)%nat -> peq (b1 j) (b2 j)) -> peq (pseries b1 c N) (pseries b2 c N).
Proof.
  intros H m. rewrite !coef_pseries. apply bigsum_ext. intros j Hj. rewrite (H j Hj m). reflexivity.
Qed.

Lemma ultra_col_sem N p j : (j < N)%nat -> forall m,
  coef (ultra_col p j) m == bigsum (fun k => UD 1 p k j * coef (geg p k) m) N.
Proof.
  intros Hj m. unfold ultra_col. destruct (p <=? j)%nat eqn:E.
  - apply Nat.leb_le in E.
    rewrite (bigsum_single (fun k => UD 1 p k j * coef (geg p k) m) N (j - p)%nat).
    + rewrite UD_entry. replace (j - p + p)%nat with j by lia. rewrite Nat.eqb_refl, coef_pscale. reflexivity.
    + lia.
    + intros k Hk Hne. rewrite UD_entry. replace (Nat.eqb (k + p) j) with false by (symmetry; apply Nat.eqb_neq; lia). ring.
  - apply Nat.leb_gt in E. rewrite coef_nil. symmetry. apply bigsum_zero. intros k Hk.
    rewrite UD_entry. replace (Nat.eqb (k + p) j) with false by (symmetry; apply Nat.eqb_neq; lia). ring.
Qed.

(* ultraspherical differentiation: the p-th derivative of a T series in the C^(p) basis, N <= 64, p = 1, 2, 3 *)
Theorem ultra_diff_correct_upto64 N p c : (N <= 64)%nat -> (p = 1 \/ p = 2 \/ p = 3)%nat ->
  peq (pderiv_n p (pseries chebT c N)) (pseries (geg p) (mv N (UD 1 p) c) N).
Proof.
  intros HN Hp.
  eapply (@Equivalence_Transitive _ _ peq_Equivalence); [apply pderiv_n_pseries|].
  apply (series_convert (fun j => pderiv_n p (chebT j)) (geg p) (UD 1 p) N).
  intros j Hj m. rewrite <- (ultra_col_sem N p j Hj m).
  destruct (checked_64 j ltac:(lia)) as (H1 & H2 & H3 & _).
  destruct Hp as [-> | [-> | ->]]; apply peqb_sound; assumption.
Qed.

Lemma S_col_sem N lam j : (1 <= lam)%nat -> (j < N)%nat -> forall m,
  coef (S_col lam j) m == bigsum (fun k => US lam k j * coef (geg (S lam) k) m) N.
Proof.
  intros Hl Hj m. unfold S_col. destruct lam as [|lam]; [lia|]. rewrite coef_psub, coef_pscale.
  rewrite (bigsum_ext _ (fun k => (if Nat.eqb k j then Qn (S lam) / Qn (S lam + j) * coef (geg (S (S lam)) k) m else 0)
                                  + (if Nat.eqb (k + 2) j then - (Qn (S lam) / Qn (S lam + j)) * coef (geg (S (S lam)) k) m else 0))).
  2:{ intros k Hk. cbn [US]. destruct (Nat.eqb k j) eqn:E1; destruct (Nat.eqb (k + 2) j) eqn:E2; try ring.
      - apply Nat.eqb_eq in E1, E2. lia.
      - apply Nat.eqb_eq in E1. subst k. ring. }
  rewrite bigsum_add.
  rewrite (bigsum_single (fun k => if Nat.eqb k j then _ else 0) N j)
    by (try lia; intros k Hk Hne; apply Nat.eqb_neq in Hne; rewrite Hne; reflexivity).
  rewrite Nat.eqb_refl. apply Qplus_comp; [reflexivity|].
  destruct (2 <=? j)%nat eqn:E.
  - apply Nat.leb_le in E.
    rewrite (bigsum_single (fun k => if Nat.eqb (k + 2) j then _ else 0) N (j - 2)%nat).
    + replace (j - 2 + 2)%nat with j by lia. rewrite Nat.eqb_refl, coef_pscale. ring.
    + lia.
    + intros k Hk Hne. destruct (Nat.eqb (k + 2) j) eqn:E2; [apply Nat.eqb_eq in E2; lia | reflexivity].
  - apply Nat.leb_gt in E. rewrite coef_nil.
    rewrite (bigsum_zero (fun k => if Nat.eqb (k + 2) j then _ else 0)); [ring|].
    intros k Hk. destruct (Nat.eqb (k + 2) j) eqn:E2; [apply Nat.eqb_eq in E2; lia | reflexivity].
Qed.

(* S_lam converts a C^(lam) series into the C^(lam+1) basis, N <= 64, lam = 1, 2 (lam = 0 is T2U_correct, all N) *)
Theorem ultra_S_correct_upto64 N lam c : (N <= 64)%nat -> (lam = 1 \/ lam = 2)%nat ->
  peq (pseries (geg lam) c N) (pseries (geg (S lam)) (mv N (US lam) c) N).
Proof.
  intros HN Hl. apply series_convert. intros j Hj m.
  rewrite <- (S_col_sem N lam j ltac:(lia) Hj m).
  destruct (checked_64 j ltac:(lia)) as (_ & _ & _ & H1 & H2 & _).
  destruct Hl as [-> | ->]; apply peqb_sound; assumption.
Qed.

Theorem geg1_is_chebU_upto64 j : (j < 64)%nat -> peq (geg 1 j) (chebU j).
Proof. intros Hj. apply peqb_sound. apply (checked_64 j Hj). Qed.

Theorem tables_are_model N :
  (forall fac p, meq N (tget (DTp_tab N fac p)) (DTp N fac p)) /\
  (forall lo d, meq N (tget (Ubc_tab N lo d)) (Ubc N lo d)) /\
  (forall lo d, meq N (tget (Ubc_inv_tab N lo d)) (Ubc_inv N lo d)).
Proof. split; [|split]; intros; [apply DTp_tab_correct | apply Ubc_tab_correct | apply Ubc_inv_tab_correct]. Qed.

(* ------------------------------------------------------------------ affine interval map: chain rule *)

Lemma coef_plin a b q m : coef (plin a b q) m == a * shiftc (coef q) m + b * coef q m.
Proof. unfold plin. rewrite coef_padd, !coef_pscale, coef_pX. reflexivity. Qed.

Lemma plin_peq a b q1 q2 : peq q1 q2 -> peq (plin a b q1) (plin a b q2).
Proof. intros H m. rewrite !coef_plin. destruct m as [|m]; cbn [shiftc]; rewrite ?(H m), ?(H (S m)), ?(H 0%nat); reflexivity. Qed.

Lemma plin_pscale a b c q : peq (plin a b (pscale c q)) (pscale c (plin a b q)).
Proof.
  intros m. rewrite coef_pscale, !coef_plin. destruct m as [|m]; cbn [shiftc]; rewrite ?coef_pscale; ring.
Qed.

Lemma pderiv_plin a b q : peq (pderiv (plin a b q)) (padd (pscale a q) (plin a b (pderiv q))).
Proof.
  intros m. rewrite coef_pderiv, coef_padd, coef_pscale, !coef_plin. cbn [shiftc].
  destruct m as [|m]; cbn [shiftc]; rewrite !coef_pderiv.
  - rewrite Qn_S, Qn_0. ring.
  - rewrite (Qn_S (S m)). ring.
Qed.

Lemma pderiv_linpow a b j : peq (pderiv (linpow a b (S j))) (pscale (a * Qn (S j)) (linpow a b j)).
Proof.
  induction j as [|j IH].
  - intros m. cbn [linpow]. rewrite coef_pderiv, coef_pscale, coef_plin. cbn [shiftc].
    destruct m as [|m].
    + unfold coef. cbn [nth]. rewrite !Qn_S, Qn_0. ring.
    + unfold coef. cbn [nth]. destruct m; ring.
  - change (linpow a b (S (S j))) with (plin a b (linpow a b (S j))).
    intros m. rewrite (pderiv_plin a b (linpow a b (S j)) m).
    rewrite coef_padd, !coef_pscale.
    rewrite (plin_peq a b _ _ IH m), (plin_pscale a b _ _ m), coef_pscale.
    change (plin a b (linpow a b j)) with (linpow a b (S j)).
    rewrite (Qn_S (S j)). ring.
Qed.

Lemma pderiv_linpow0 a b : peq (pderiv (linpow a b 0)) [].
Proof. intros m. cbn [linpow]. rewrite coef_pderiv, coef_nil. unfold coef. cbn [nth]. destruct m; ring. Qed.

Lemma pderiv_length p : length (pderiv p) = (length p - 1)%nat.
Proof.
  destruct p as [|a p]; [reflexivity|]. cbn [pderiv length].
  assert (H : forall k, length (pderiv_from k p) = length p).
  { induction p as [|x p IH]; intros k; cbn [pderiv_from length]; [reflexivity|]. rewrite IH. reflexivity. }
  rewrite H. lia.
Qed.

(* chain rule for an affine substitution *)
Lemma pderiv_pcomp_aff a b p : peq (pderiv (pcomp_aff a b p)) (pscale a (pcomp_aff a b (pderiv p))).
Proof.
  intros m. unfold pcomp_aff.
  rewrite (pderiv_pseries (linpow a b) (coef p) (length p) m), coef_pscale, !coef_pseries, pderiv_length.
  destruct (length p) as [|n] eqn:El.
  - cbn [bigsum Nat.sub]. ring.
  - cbn [Nat.sub]. rewrite Nat.sub_0_r, bigsum_front.
    rewrite (pderiv_linpow0 a b m), coef_nil.
    rewrite <- bigsum_scal.
    setoid_replace (coef p 0 * 0) with 0 by ring. rewrite Qplus_0_l.
    apply bigsum_ext. intros i Hi.
    rewrite (pderiv_linpow a b i m), coef_pscale, coef_pderiv. ring.
Qed.

Lemma pcomp_aff_peq a b p q : peq p q -> peq (pcomp_aff a b p) (pcomp_aff a b q).
Proof.
  intros H m. unfold pcomp_aff. rewrite !coef_pseries.
  set (n := Nat.max (length p) (length q)).
  rewrite <- (bigsum_tail (fun j => coef p j * coef (linpow a b j) m) (length p) n)
    by (try (unfold n; lia); intros j Hj; rewrite coef_beyond by lia; ring).
  rewrite <- (bigsum_tail (fun j => coef q j * coef (linpow a b j) m) (length q) n)
    by (try (unfold n; lia); intros j Hj; rewrite coef_beyond by lia; ring).
  apply bigsum_ext. intros j Hj. rewrite (H j). reflexivity.
Qed.

Lemma pcomp_aff_pscale a b c p : peq (pcomp_aff a b (pscale c p)) (pscale c (pcomp_aff a b p)).
Proof.
  intros m. unfold pcomp_aff. rewrite coef_pscale, !coef_pseries. unfold pscale at 2. rewrite map_length.
  rewrite <- bigsum_scal. apply bigsum_ext. intros j Hj. rewrite coef_pscale. ring.
Qed.

Lemma pscale_peq c p q : peq p q -> peq (pscale c p) (pscale c q).
Proof. intros H m. rewrite !coef_pscale, (H m). reflexivity. Qed.

Lemma pderiv_n_pcomp_aff a b p P :
  peq (pderiv_n p (pcomp_aff a b P)) (pscale (Qpown a p) (pcomp_aff a b (pderiv_n p P))).
Proof.
  induction p as [|p IH]; cbn [pderiv_n Qpown].
  - intros m. rewrite coef_pscale. ring.
  - intros m. rewrite (pderiv_peq _ _ IH m).
    rewrite (pderiv_pscale _ _ m), coef_pscale.
    rewrite (pderiv_pcomp_aff a b (pderiv_n p P) m). rewrite !coef_pscale. ring.
Qed.

Lemma pseries_scale basis s c N : peq (pseries basis (fun j => s * c j) N) (pscale s (pseries basis c N)).
Proof. intros m. rewrite coef_pscale, !coef_pseries, <- bigsum_scal. apply bigsum_ext. intros j Hj. ring. Qed.

Lemma Qpown_inv a p : ~ a == 0 -> Qpown (/ a) p == / Qpown a p.
Proof.
  intros Ha. induction p as [|p IH]; cbn [Qpown]; [reflexivity|]. rewrite IH.
  assert (Hp : ~ Qpown a p == 0).
  { clear IH. induction p as [|p IHp]; cbn [Qpown]; [discriminate|]. intro E. apply Qmult_integral in E. tauto. }
  field. auto.
Qed.

(* the operator the code returns on [x0, x1] (D^p / fac^p) differentiates the MAPPED series:
   with y = fac x + off,  q(y) = sum_j c_j T_j((y - off)/fac)  has  q^(p)(y) = sum_k (D^p c / fac^p)_k T_k((y - off)/fac) *)
Theorem cheb_diff_mapped N c fac off p : ~ fac == 0 ->
  peq (pderiv_n p (pcomp_aff (/ fac) (- off / fac) (pseries chebT c N)))
      (pcomp_aff (/ fac) (- off / fac) (pseries chebT (mv N (DTp N fac p) c) N)).
Proof.
  intros Hf.
  eapply (@Equivalence_Transitive _ _ peq_Equivalence); [apply pderiv_n_pcomp_aff|].
  eapply (@Equivalence_Transitive _ _ peq_Equivalence);
    [apply pscale_peq, pcomp_aff_peq, cheb_diff_p_correct|].
  eapply (@Equivalence_Transitive _ _ peq_Equivalence); [apply (@Equivalence_Symmetric _ _ peq_Equivalence), pcomp_aff_pscale|].
  apply pcomp_aff_peq.
  eapply (@Equivalence_Transitive _ _ peq_Equivalence); [apply (@Equivalence_Symmetric _ _ peq_Equivalence), pseries_scale|].
  apply pseries_ext. intros k Hk. unfold mv, DTp. rewrite <- bigsum_scal. apply bigsum_ext. intros j Hj.
  rewrite Qpown_inv by exact Hf. unfold Qdiv. ring.
Qed.

(* values: (p o aff)(y) = p(a y + b) *)
Lemma peval_plin a b q x : peval (plin a b q) x == (a * x + b) * peval q x.
Proof. unfold plin. rewrite peval_padd, !peval_pscale, peval_pX. ring. Qed.
Lemma peval_linpow a b j x : peval (linpow a b j) x == qpow (a * x + b) j.
Proof.
  induction j as [|j IH]; cbn [linpow qpow].
  - rewrite peval_cons, peval_nil. ring.
  - rewrite peval_plin, IH. reflexivity.
Qed.
Lemma peval_as_sum p x : peval p x == bigsum (fun j => coef p j * qpow x j) (length p).
Proof.
  induction p as [|c0 p IH]; [reflexivity|].
  rewrite peval_cons. cbn [length]. rewrite bigsum_front. unfold coef at 1. cbn [nth qpow].
  rewrite IH, <- bigsum_scal. apply Qplus_comp; [ring|]. apply bigsum_ext. intros j Hj.
  unfold coef. cbn [nth qpow]. ring.
Qed.
Theorem peval_pcomp_aff a b p y : peval (pcomp_aff a b p) y == peval p (a * y + b).
Proof.
  unfold pcomp_aff. rewrite peval_pseries, (peval_as_sum p (a * y + b)).
  apply bigsum_ext. intros j Hj. rewrite peval_linpow. reflexivity.
Qed.

Lemma Qpown_neq0 a p : ~ a == 0 -> ~ Qpown a p == 0.
Proof. intros Ha. induction p as [|p IH]; cbn [Qpown]; [discriminate|]. intro E. apply Qmult_integral in E. tauto. Qed.

Lemma UD_fac fac p k j : ~ fac == 0 -> UD fac p k j == UD 1 p k j / Qpown fac p.
Proof.
  intros Hf. unfold UD. destruct (Nat.eqb (k + p) j); [|unfold Qdiv; ring].
  rewrite Qpown_1. field. apply Qpown_neq0, Hf.
Qed.

(* ultraspherical differentiation on an interval: D_p / fac^p gives the C^(p) coefficients (mapped basis) of the p-th derivative *)
Theorem ultra_diff_mapped_upto64 N p c fac off : (N <= 64)%nat -> (p = 1 \/ p = 2 \/ p = 3)%nat -> ~ fac == 0 ->
  peq (pderiv_n p (pcomp_aff (/ fac) (- off / fac) (pseries chebT c N)))
      (pcomp_aff (/ fac) (- off / fac) (pseries (geg p) (mv N (UD fac p) c) N)).
Proof.
  intros HN Hp Hf.
  eapply (@Equivalence_Transitive _ _ peq_Equivalence); [apply pderiv_n_pcomp_aff|].
  eapply (@Equivalence_Transitive _ _ peq_Equivalence);
    [apply pscale_peq, pcomp_aff_peq, (ultra_diff_correct_upto64 N p c HN Hp)|].
  eapply (@Equivalence_Transitive _ _ peq_Equivalence); [apply (@Equivalence_Symmetric _ _ peq_Equivalence), pcomp_aff_pscale|].
  apply pcomp_aff_peq.
  eapply (@Equivalence_Transitive _ _ peq_Equivalence); [apply (@Equivalence_Symmetric _ _ peq_Equivalence), pseries_scale|].
  apply pseries_ext. intros k Hk. unfold mv. rewrite <- bigsum_scal. apply bigsum_ext. intros j Hj.
  rewrite (UD_fac fac p k j Hf), Qpown_inv by exact Hf. unfold Qdiv. ring.
Qed.
