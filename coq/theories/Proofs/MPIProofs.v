(* C08 — proofs about the MPI transition system of Model/MPI.v. *)
From Coq Require Import List Arith Bool ZArith Lia.
From PySDC Require Import Model.MPI.
Import ListNotations.


(* ------------------------------------------------------------------ list utilities *)

Lemma upd_length : forall A (l : list A) i x, length (upd l i x) = length l.
Proof. induction l; destruct i; simpl; intros; auto. Qed.

Lemma nth_error_upd_eq : forall A (l : list A) i x, i < length l -> nth_error (upd l i x) i = Some x.
Proof. induction l; destruct i; simpl; intros; try lia; auto. apply IHl. lia. Qed.

Lemma nth_error_upd_neq : forall A (l : list A) i j x, i <> j -> nth_error (upd l i x) j = nth_error l j.
Proof. induction l; destruct i; destruct j; simpl; intros; auto; try lia. Qed.

Lemma upd_comm : forall A (l : list A) i j a b, i <> j -> upd (upd l i a) j b = upd (upd l j b) i a.
Proof.
  induction l; destruct i; destruct j; simpl; intros; auto; try lia.
  f_equal. apply IHl. lia.
Qed.

Lemma map_upd : forall A B (f : A -> B) (l : list A) i x, map f (upd l i x) = upd (map f l) i (f x).
Proof. induction l; destruct i; simpl; intros; auto. f_equal. auto. Qed.

Lemma nth_upd_eq : forall A (l : list A) i x d, i < length l -> nth i (upd l i x) d = x.
Proof. induction l; destruct i; simpl; intros; try lia; auto. apply IHl. lia. Qed.

Lemma nth_upd_neq : forall A (l : list A) i j x d, i <> j -> nth j (upd l i x) d = nth j l d.
Proof. induction l; destruct i; destruct j; simpl; intros; auto; try lia. Qed.

Lemma nth_error_nth : forall A (l : list A) i x d, nth_error l i = Some x -> nth i l d = x.
Proof. induction l; destruct i; simpl; intros; try discriminate; auto. congruence. Qed.

Lemma nth_error_app_Some : forall A (l l' : list A) i x,
  nth_error l i = Some x -> nth_error (l ++ l') i = Some x.
Proof.
  intros. rewrite nth_error_app1; auto. apply nth_error_Some. congruence.
Qed.

Lemma hist_of_app_at_eq : forall hs w e, w < length hs -> hist_of (app_at hs w e) w = hist_of hs w ++ [e].
Proof. intros. unfold hist_of at 1, app_at. apply nth_upd_eq. auto. Qed.

Lemma hist_of_app_at_neq : forall hs w j e, w <> j -> hist_of (app_at hs w e) j = hist_of hs j.
Proof. intros. unfold hist_of, app_at. apply nth_upd_neq. auto. Qed.

Lemma app_at_length : forall hs w e, length (app_at hs w e) = length hs.
Proof. intros. apply upd_length. Qed.

Lemma enum_from_app : forall A (l l' : list A) n,
  enum_from n (l ++ l') = enum_from n l ++ enum_from (n + length l) l'.
Proof.
  induction l; simpl; intros.
  - f_equal. lia.
  - f_equal. rewrite IHl. f_equal. f_equal. lia.
Qed.

Lemma filter_map_app : forall A B (f : A -> option B) l l',
  filter_map f (l ++ l') = filter_map f l ++ filter_map f l'.
Proof.
  induction l; simpl; intros; auto. destruct (f a); simpl; rewrite IHl; auto.
Qed.

(* ------------------------------------------------------------------ histories only grow: observations are prefix-stable *)

Lemma reqs_app : forall h s, exists r, reqs (h ++ s) = reqs h ++ r.
Proof.
  intros. unfold reqs. rewrite filter_app, enum_from_app. eauto.
Qed.

Lemma chan_sends_app : forall h s c d t, exists r, chan_sends (h ++ s) c d t = chan_sends h c d t ++ r.
Proof.
  intros. unfold chan_sends. destruct (reqs_app h s) as [r Hr]. rewrite Hr, filter_map_app. eauto.
Qed.

Lemma chan_recvs_app : forall h s c d t, exists r, chan_recvs (h ++ s) c d t = chan_recvs h c d t ++ r.
Proof.
  intros. unfold chan_recvs. destruct (reqs_app h s) as [r Hr]. rewrite Hr, filter_map_app. eauto.
Qed.

Lemma enters_app : forall h s c, enters (h ++ s) c = enters h c ++ enters s c.
Proof. intros. unfold enters. apply filter_map_app. Qed.

(* hs' extends hs: same ranks, every history a prefix of the new one, rank w's own history unchanged *)
Definition ext_but (w : nat) (hs hs' : hists) : Prop :=
  length hs = length hs' /\ hist_of hs' w = hist_of hs w /\
  forall r, exists sfx, hist_of hs' r = hist_of hs r ++ sfx.

Lemma ext_but_app_at : forall hs w j e, w <> j -> ext_but w hs (app_at hs j e).
Proof.
  intros. split; [|split].
  - symmetry. apply app_at_length.
  - apply hist_of_app_at_neq. auto.
  - intros r. destruct (Nat.eq_dec j r) as [->|Hn].
    + destruct (Nat.lt_ge_cases r (length hs)).
      * rewrite hist_of_app_at_eq by auto. eauto.
      * exists []. rewrite app_nil_r. unfold hist_of, app_at.
        assert (Hu : forall A (l : list A) i x, length l <= i -> upd l i x = l).
        { induction l; destruct i; simpl; intros; auto; try lia. f_equal. apply IHl. lia. }
        rewrite Hu; auto.
    + exists []. rewrite app_nil_r. apply hist_of_app_at_neq. auto.
Qed.

Section Stability.
  Variable cu : list (list nat).
  Variable eager : nat -> nat -> bool.

  Lemma recv_partner_stable : forall w hs hs' q x,
    ext_but w hs hs' -> recv_partner cu hs w q = Some x -> recv_partner cu hs' w q = Some x.
  Proof.
    intros w hs hs' q x (Hl & Hown & Hext) H. unfold recv_partner in *. rewrite Hown.
    destruct (req_of (hist_of hs w) q) as [[]|]; try discriminate.
    destruct (lrank cu c w) as [me|]; try discriminate.
    destruct (wrank cu c src) as [ws|]; try discriminate.
    destruct (index_of q (chan_recvs (hist_of hs w) c src tag)) as [i|]; try discriminate.
    destruct (Hext ws) as [sfx Hs]. rewrite Hs.
    destruct (chan_sends_app (hist_of hs ws) sfx c me tag) as [r Hr]. rewrite Hr.
    destruct (nth_error (chan_sends (hist_of hs ws) c me tag) i) as [[pq v]|] eqn:E; try discriminate.
    erewrite nth_error_app_Some by eauto. simpl; auto.
  Qed.

  Lemma send_partner_stable : forall w hs hs' q x,
    ext_but w hs hs' -> send_partner cu hs w q = Some x -> send_partner cu hs' w q = Some x.
  Proof.
    intros w hs hs' q x (Hl & Hown & Hext) H. unfold send_partner in *. rewrite Hown.
    destruct (req_of (hist_of hs w) q) as [[]|]; try discriminate.
    destruct (lrank cu c w) as [me|]; try discriminate.
    destruct (wrank cu c dst) as [wr|]; try discriminate.
    destruct (index_of q (map fst (chan_sends (hist_of hs w) c dst tag))) as [i|]; try discriminate.
    destruct (Hext wr) as [sfx Hs]. rewrite Hs.
    destruct (chan_recvs_app (hist_of hs wr) sfx c me tag) as [r Hr]. rewrite Hr.
    destruct (nth_error (chan_recvs (hist_of hs wr) c me tag) i) as [pq|] eqn:E; try discriminate.
    erewrite nth_error_app_Some by eauto. simpl; auto.
  Qed.

  Lemma wait_cand_stable : forall w hs hs' q x,
    ext_but w hs hs' -> wait_cand cu eager hs w q = Some x -> wait_cand cu eager hs' w q = Some x.
  Proof.
    intros w hs hs' q x He H. pose proof He as (Hl & Hown & Hext). unfold wait_cand in *. rewrite Hown.
    destruct (existsb (Nat.eqb q) (completed (hist_of hs w))); try discriminate.
    destruct (req_of (hist_of hs w) q) as [[]|]; try discriminate.
    - destruct (negb sync && eager w q); auto.
      destruct (send_partner cu hs w q) as [p|] eqn:E; try discriminate.
      erewrite send_partner_stable by eauto. simpl; auto.
    - destruct (recv_partner cu hs w q) as [[[ws pq] v]|] eqn:E; try discriminate.
      erewrite recv_partner_stable by eauto. simpl; auto.
  Qed.

  Lemma enter_k_stable : forall w hs hs' c k w' x,
    ext_but w hs hs' -> enter_k hs c k w' = Some x -> enter_k hs' c k w' = Some x.
  Proof.
    intros w hs hs' c k w' x (Hl & Hown & Hext) H. unfold enter_k in *.
    destruct (Hext w') as [sfx Hs]. rewrite Hs, enters_app. apply nth_error_app_Some. auto.
  Qed.

  Lemma gather_all_stable : forall w hs hs' c k mine ms l,
    ext_but w hs hs' -> gather_all hs c k mine ms = Some l -> gather_all hs' c k mine ms = Some l.
  Proof.
    intros w hs hs' c k mine ms. induction ms as [|w' t IH]; simpl; intros l He H; auto.
    destruct (enter_k hs c k w') as [x|] eqn:E; try discriminate.
    erewrite enter_k_stable by eauto. simpl; auto.
    destruct (same_call mine x); try discriminate.
    destruct (gather_all hs c k mine t) as [l'|] eqn:G; try discriminate.
    erewrite IH by eauto. simpl; auto.
  Qed.

  Lemma exit_cand_stable : forall w hs hs' c x,
    ext_but w hs hs' -> exit_cand cu hs w c = Some x -> exit_cand cu hs' w c = Some x.
  Proof.
    intros w hs hs' c x He H. pose proof He as (Hl & Hown & Hext). unfold exit_cand in *. rewrite Hown.
    destruct (negb (length (enters (hist_of hs w) c) =? S (nexits (hist_of hs w) c))); try discriminate.
    destruct (nth_error (enters (hist_of hs w) c) (nexits (hist_of hs w) c)) as [mine|]; try discriminate.
    destruct (lrank cu c w) as [me|]; try discriminate.
    destruct (class_of (fst (fst mine))).
    - destruct (gather_all hs c (nexits (hist_of hs w) c) mine (members cu c)) as [l|] eqn:G; try discriminate.
      erewrite gather_all_stable by eauto. simpl; auto.
    - destruct (me =? snd (fst mine)); auto.
      destruct (wrank cu c (snd (fst mine))) as [wroot|]; try discriminate.
      destruct (enter_k hs c (nexits (hist_of hs w) c) wroot) as [y|] eqn:E; try discriminate.
      erewrite enter_k_stable by eauto. simpl; auto.
    - destruct (me =? snd (fst mine)); auto.
      destruct (gather_all hs c (nexits (hist_of hs w) c) mine (members cu c)) as [l|] eqn:G; try discriminate.
      erewrite gather_all_stable by eauto. simpl; auto.
  Qed.

  (* posts and collective entries look at the own history only *)
  Lemma ev_ok_post_stable : forall w hs hs' e,
    ext_but w hs hs' ->
    match e with ESend _ _ _ _ _ | ERecv _ _ _ | EEnter _ _ _ _ => True | _ => False end ->
    ev_ok cu eager hs' w e = ev_ok cu eager hs w e.
  Proof.
    intros w hs hs' e (Hl & Hown & Hext) He. unfold ev_ok. rewrite Hl.
    destruct e; try contradiction; auto. rewrite Hown. auto.
  Qed.
End Stability.

(* ------------------------------------------------------------------ programs: commutation of steps of different ranks *)

Lemma Forall_upd : forall A (Q : A -> Prop) l i x, Forall Q l -> Q x -> Forall Q (upd l i x).
Proof.
  induction l; destruct i; simpl; intros; auto; inversion H; subst; constructor; auto.
Qed.

Lemma Forall_nth_error : forall A (Q : A -> Prop) l i x, Forall Q l -> nth_error l i = Some x -> Q x.
Proof.
  intros. rewrite Forall_forall in H. apply H. eapply nth_error_In; eauto.
Qed.

Lemma hist_of_hists_of : forall L (s : state L) w l h, nth_error s w = Some (l, h) -> hist_of (hists_of s) w = h.
Proof.
  intros. unfold hist_of, hists_of. apply nth_error_nth. erewrite map_nth_error; eauto. auto.
Qed.

Lemma hists_of_upd : forall L (s : state L) w l h l' e,
  nth_error s w = Some (l, h) -> hists_of (upd s w (l', h ++ [e])) = app_at (hists_of s) w e.
Proof.
  intros. unfold hists_of at 1. rewrite map_upd. unfold app_at. simpl.
  erewrite hist_of_hists_of; eauto.
Qed.

Set Implicit Arguments.
Unset Strict Implicit.
Section Confluence.
  Variable cu : list (list nat).
  Context {L : Type}.
  Variable P : prog L.
  (* the class of local states the program stays in: it never offers a Test there *)
  Variable good : L -> Prop.
  Hypothesis good_no_test : forall w l, good l -> forall q k, P w l <> ATest q k.
  Hypothesis good_step : forall eager hs w l tb l' e,
    good l -> react cu eager P hs w l tb = Some (l', e) -> good l'.

  Definition good_state (s : state L) : Prop := Forall (fun x => good (fst x)) s.

  Lemma good_at : forall s w l h, good_state s -> nth_error s w = Some (l, h) -> good l.
  Proof. intros s w l h Hg Hn. apply (Forall_nth_error _ _ _ _ _ Hg Hn). Qed.

  Lemma react_stable : forall eager w hs hs' l tb tb' x,
    ext_but w hs hs' -> good l ->
    react cu eager P hs w l tb = Some x -> react cu eager P hs' w l tb' = Some x.
  Proof.
    intros eager w hs hs' l tb tb' x He Hg H. unfold react in *.
    destruct (P w l) eqn:EP.
    - erewrite (@ev_ok_post_stable cu eager w hs hs' _ He) by (simpl; auto). auto.
    - erewrite (@ev_ok_post_stable cu eager w hs hs' _ He) by (simpl; auto). auto.
    - destruct (wait_cand cu eager hs w q) as [[p v]|] eqn:E; try discriminate.
      erewrite wait_cand_stable by eauto. auto.
    - exfalso. eapply good_no_test; eauto.
    - erewrite (@ev_ok_post_stable cu eager w hs hs' _ He) by (simpl; auto). auto.
    - destruct (exit_cand cu hs w c) as [[vo l']|] eqn:E; try discriminate.
      erewrite exit_cand_stable by eauto. auto.
    - discriminate.
  Qed.

  Lemma ext_but_refl : forall w hs, ext_but w hs hs.
  Proof. intros. split; [|split]; auto. intros r. exists []. rewrite app_nil_r. auto. Qed.

  Lemma react_tb : forall eager w hs l tb tb', good l ->
    react cu eager P hs w l tb = react cu eager P hs w l tb'.
  Proof.
    intros. destruct (react cu eager P hs w l tb) as [x|] eqn:E.
    - symmetry. eapply react_stable; eauto. apply ext_but_refl.
    - destruct (react cu eager P hs w l tb') as [x|] eqn:E'; auto.
      assert (react cu eager P hs w l tb = Some x) by (eapply react_stable; eauto; apply ext_but_refl).
      congruence.
  Qed.

  Lemma fire_inv : forall eager s w tb s', fire cu eager P s w tb = Some s' ->
    exists l h l' e, nth_error s w = Some (l, h) /\
      react cu eager P (hists_of s) w l tb = Some (l', e) /\ s' = upd s w (l', h ++ [e]).
  Proof.
    intros eager s w tb s' H. unfold fire in H.
    destruct (nth_error s w) as [[l h]|] eqn:E; try discriminate.
    destruct (react cu eager P (hists_of s) w l tb) as [[l' e]|] eqn:R; try discriminate.
    inversion H. repeat eexists; eauto.
  Qed.

  Lemma fire_good : forall eager s w tb s', good_state s -> fire cu eager P s w tb = Some s' -> good_state s'.
  Proof.
    intros eager s w tb s' Hg H. destruct (fire_inv H) as (l & h & l' & e & Hn & Hr & ->).
    apply Forall_upd; auto. simpl. eapply good_step; eauto.
    apply (good_at Hg Hn).
  Qed.

  Lemma fire_det : forall eager s w tb tb' s1 s2, good_state s ->
    fire cu eager P s w tb = Some s1 -> fire cu eager P s w tb' = Some s2 -> s1 = s2.
  Proof.
    intros eager s w tb tb' s1 s2 Hg H1 H2.
    destruct (fire_inv H1) as (l & h & l1 & e1 & Hn & Hr1 & ->).
    destruct (fire_inv H2) as (l' & h' & l2 & e2 & Hn' & Hr2 & ->).
    rewrite Hn in Hn'. inversion Hn'; subst l' h'.
    rewrite (react_tb eager w (hists_of s) tb tb') in Hr1 by apply (good_at Hg Hn).
    congruence.
  Qed.

  (* the diamond: enabled steps of different ranks commute *)
  Lemma fire_diamond : forall eager s i j tbi tbj s1 s2, good_state s -> i <> j ->
    fire cu eager P s i tbi = Some s1 -> fire cu eager P s j tbj = Some s2 ->
    exists s3, fire cu eager P s1 j tbj = Some s3 /\ fire cu eager P s2 i tbi = Some s3.
  Proof.
    intros eager s i j tbi tbj s1 s2 Hg Hij H1 H2.
    destruct (fire_inv H1) as (li & hi & li' & ei & Hni & Hri & ->).
    destruct (fire_inv H2) as (lj & hj & lj' & ej & Hnj & Hrj & ->).
    exists (upd (upd s i (li', hi ++ [ei])) j (lj', hj ++ [ej])). split.
    - unfold fire. rewrite nth_error_upd_neq by auto. rewrite Hnj.
      erewrite hists_of_upd by eauto.
      assert (R : react cu eager P (app_at (hists_of s) i ei) j lj tbj = Some (lj', ej)).
      { eapply react_stable; [ apply ext_but_app_at; auto | apply (good_at Hg Hnj) | exact Hrj ]. }
      rewrite R. auto.
    - rewrite upd_comm by auto.
      unfold fire. rewrite nth_error_upd_neq by auto. rewrite Hni.
      erewrite hists_of_upd by eauto.
      assert (R : react cu eager P (app_at (hists_of s) j ej) i li tbi = Some (li', ei)).
      { eapply react_stable; [ apply ext_but_app_at; auto | apply (good_at Hg Hni) | exact Hri ]. }
      rewrite R. auto.
  Qed.

  Lemma steps_good : forall eager n s t, good_state s -> steps cu eager P n s t -> good_state t.
  Proof.
    induction 2; auto. apply IHsteps. destruct H0 as (w & tb & Hf). eapply fire_good; eauto.
  Qed.

  Lemma steps_terminal_O : forall eager n t u, terminal cu eager P t -> steps cu eager P n t u -> n = 0 /\ u = t.
  Proof.
    intros eager n t u Ht H. inversion H; subst; auto.
    destruct H0 as (w & tb & Hf). rewrite Ht in Hf. discriminate.
  Qed.

  (* If ONE execution reaches a terminal state t in n steps, then every execution has at most n
     steps and can be completed to t. *)
  Theorem confluence_main : forall eager n s t, good_state s ->
    steps cu eager P n s t -> terminal cu eager P t ->
    forall m u, steps cu eager P m s u -> m <= n /\ steps cu eager P (n - m) u t.
  Proof.
    intros eager. induction n as [|n IH]; intros s t Hg Hst Ht m u Hsu.
    - inversion Hst; subst. destruct (steps_terminal_O Ht Hsu) as [-> ->]. split; auto; constructor.
    - inversion Hst as [|n0 s0 s1 t0 Hstep1 Hrest]; subst.
      destruct m as [|m].
      + inversion Hsu; subst. split; [lia|]. simpl. auto.
      + inversion Hsu as [|m0 s0 s1' u0 Hstep1' Hrest']; subst.
        destruct Hstep1 as (r & tb & Hf). destruct Hstep1' as (r' & tb' & Hf').
        assert (Hg1 : good_state s1) by exact (fire_good Hg Hf).
        assert (Hg1' : good_state s1') by exact (fire_good Hg Hf').
        destruct (Nat.eq_dec r r') as [->|Hne].
        * assert (s1 = s1') by exact (fire_det Hg Hf Hf'). subst s1'.
          destruct (IH _ _ Hg1 Hrest Ht _ _ Hrest') as [Hle Hs]. split; [lia|]. simpl. auto.
        * destruct (fire_diamond Hg Hne Hf Hf') as (s2 & Ha & Hb).
          assert (H12 : steps cu eager P 1 s1 s2).
          { econstructor; [exists r', tb'; eauto | constructor]. }
          destruct (IH _ _ Hg1 Hrest Ht _ _ H12) as [Hle1 Hs2].
          assert (Hs1't : steps cu eager P n s1' t).
          { replace n with (S (n - 1)) by lia. econstructor; [exists r, tb; eauto | auto]. }
          destruct (IH _ _ Hg1' Hs1't Ht _ _ Hrest') as [Hle Hs]. split; [lia|]. simpl. auto.
  Qed.

  (* all complete executions end in the same state (local states AND histories of every rank) *)
  Theorem schedule_independent : forall eager s n t m t', good_state s ->
    steps cu eager P n s t -> terminal cu eager P t ->
    steps cu eager P m s t' -> terminal cu eager P t' -> t = t' /\ n = m.
  Proof.
    intros eager s n t m t' Hg H1 Ht H2 Ht'.
    destruct (confluence_main Hg H1 Ht H2) as [Hle Hs].
    destruct (steps_terminal_O Ht' Hs) as [Hz ->].
    destruct (confluence_main Hg H2 Ht' H1) as [Hle' _]. split; auto. lia.
  Qed.

  Definition deadlock eager (u : state L) : Prop := terminal cu eager P u /\ ~ all_done P u.

  (* if one schedule completes (all ranks reach ADone) then no schedule deadlocks, every schedule
     terminates within the same number of steps and can always be completed to the same final state *)
  Theorem one_completes_all_complete : forall eager s n t, good_state s ->
    steps cu eager P n s t -> terminal cu eager P t -> all_done P t ->
    forall m u, steps cu eager P m s u ->
      m <= n /\ steps cu eager P (n - m) u t /\ ~ deadlock eager u.
  Proof.
    intros eager s n t Hg H1 Ht Hd m u H2.
    destruct (confluence_main Hg H1 Ht H2) as [Hle Hs]. repeat split; auto.
    intros [Hu Hnd]. destruct (steps_terminal_O Hu Hs) as [_ ->]. auto.
  Qed.

  Lemma all_done_terminal : forall eager s, all_done P s -> terminal cu eager P s.
  Proof.
    intros eager s Hd w tb. unfold fire. destruct (nth_error s w) as [[l h]|] eqn:E; auto.
    unfold react. rewrite (Hd _ _ _ E). auto.
  Qed.

  (* ---------------------------------------------------------------- buffering of standard sends *)

  Definition eager_le (e e' : nat -> nat -> bool) : Prop := forall w q, e w q = true -> e' w q = true.

  Lemma wait_cand_eager_mono : forall e e' hs w q x, eager_le e e' ->
    wait_cand cu e hs w q = Some x -> wait_cand cu e' hs w q = Some x.
  Proof.
    intros e e' hs w q x Hle H. unfold wait_cand in *.
    destruct (existsb (Nat.eqb q) (completed (hist_of hs w))); try discriminate.
    destruct (req_of (hist_of hs w) q) as [[]|]; try discriminate; auto.
    destruct sync; simpl in *; auto.
    destruct (e w q) eqn:E.
    - rewrite (Hle _ _ E). auto.
    - destruct (e' w q); auto.
      destruct (send_partner cu hs w q); try discriminate. auto.
  Qed.

  Lemma ev_ok_post_eager : forall e e' hs w ev0,
    match ev0 with ESend _ _ _ _ _ | ERecv _ _ _ | EEnter _ _ _ _ => True | _ => False end ->
    ev_ok cu e hs w ev0 = ev_ok cu e' hs w ev0.
  Proof. intros. destruct ev0; try contradiction; auto. Qed.

  Lemma react_eager_mono : forall e e' hs w l tb x, eager_le e e' -> good l ->
    react cu e P hs w l tb = Some x -> react cu e' P hs w l tb = Some x.
  Proof.
    intros e e' hs w l tb x Hle Hg H. unfold react in *.
    destruct (P w l) eqn:EP; auto.
    - destruct (wait_cand cu e hs w q) as [[p v]|] eqn:E; try discriminate.
      erewrite wait_cand_eager_mono by eauto. auto.
    - exfalso. eapply good_no_test; eauto.
  Qed.

  Lemma fire_eager_mono : forall e e' s w tb s', eager_le e e' -> good_state s ->
    fire cu e P s w tb = Some s' -> fire cu e' P s w tb = Some s'.
  Proof.
    intros e e' s w tb s' Hle Hg H.
    destruct (fire_inv H) as (l & h & l' & ev0 & Hn & Hr & ->).
    unfold fire. rewrite Hn.
    rewrite (react_eager_mono Hle (good_at Hg Hn) Hr). auto.
  Qed.

  Lemma steps_eager_mono : forall e e' n s t, eager_le e e' -> good_state s ->
    steps cu e P n s t -> steps cu e' P n s t.
  Proof.
    intros e e' n s t Hle Hg H. induction H; [constructor|].
    destruct H as (w & tb & Hf). econstructor.
    - exists w, tb. eapply fire_eager_mono; eauto.
    - apply IHsteps. eapply fire_good; eauto.
  Qed.

  (* complete executions under ANY two buffering behaviours end in the same state *)
  Theorem buffering_independent : forall e1 e2 s n t m t', good_state s ->
    steps cu e1 P n s t -> all_done P t -> steps cu e2 P m s t' -> all_done P t' -> t = t' /\ n = m.
  Proof.
    intros e1 e2 s n t m t' Hg H1 Hd1 H2 Hd2.
    set (emax := fun (_ _ : nat) => true).
    assert (L1 : eager_le e1 emax) by (intros ? ? ?; auto).
    assert (L2 : eager_le e2 emax) by (intros ? ? ?; auto).
    eapply (@schedule_independent emax); eauto using steps_eager_mono, all_done_terminal.
  Qed.

  (* a complete execution in which NO standard send is buffered shows that no schedule deadlocks under any
     buffering behaviour *)
  Theorem rendezvous_complete_all_complete : forall s n t, good_state s ->
    steps cu (fun _ _ => false) P n s t -> all_done P t ->
    forall e m u, steps cu e P m s u ->
      m <= n /\ steps cu e P (n - m) u t /\ ~ deadlock e u.
  Proof.
    intros s n t Hg H1 Hd e m u H2.
    assert (L0 : eager_le (fun _ _ => false) e) by (intros ? ? ?; discriminate).
    eapply one_completes_all_complete; eauto using steps_eager_mono, all_done_terminal.
  Qed.
End Confluence.

(* ------------------------------------------------------------------ the checker [replay] is sound for the rules *)
Unset Implicit Arguments.

(* The transition rules, stated declaratively (one constructor per kind of action). *)
Inductive legal (cu : list (list nat)) (eager : nat -> nat -> bool) (hs : hists) (w : nat) : ev -> Prop :=
| L_send : forall sync c dst tag v me wr,
    w < length hs -> lrank cu c w = Some me -> wrank cu c dst = Some wr ->
    legal cu eager hs w (ESend sync c dst tag v)
| L_recv : forall c src tag me ws,
    w < length hs -> lrank cu c w = Some me -> wrank cu c src = Some ws ->
    legal cu eager hs w (ERecv c src tag)
| L_wait_recv : forall q c src tag ws pq v,
    w < length hs -> ~ In q (completed (hist_of hs w)) ->
    req_of (hist_of hs w) q = Some (ERecv c src tag) ->
    recv_partner cu hs w q = Some (ws, pq, v) ->          (* its matching send has been posted: deliver its payload *)
    legal cu eager hs w (EWait q (Some (ws, pq)) v)
| L_wait_send : forall q sync c dst tag v,
    w < length hs -> ~ In q (completed (hist_of hs w)) ->
    req_of (hist_of hs w) q = Some (ESend sync c dst tag v) ->   (* v: the buffer still holds the posted payload *)
    ((sync = false /\ eager w q = true) \/ exists p, send_partner cu hs w q = Some p) ->
    legal cu eager hs w (EWait q None v)
| L_test_ok : forall q p v,
    legal cu eager hs w (EWait q p v) -> legal cu eager hs w (ETest q true p v)
| L_test_fail : forall q p v e0,
    w < length hs -> ~ In q (completed (hist_of hs w)) -> req_of (hist_of hs w) q = Some e0 ->
    legal cu eager hs w (ETest q false p v)
| L_enter : forall c kc root v me,
    w < length hs -> lrank cu c w = Some me -> root < length (members cu c) ->
    length (enters (hist_of hs w) c) = nexits (hist_of hs w) c ->      (* no collective pending on c *)
    legal cu eager hs w (EEnter c kc root v)
| L_exit : forall c vo l,
    w < length hs -> exit_cand cu hs w c = Some (vo, l) ->
    legal cu eager hs w (EExit c vo).

Inductive valid_exec (cu : list (list nat)) (eager : nat -> nat -> bool) : hists -> list (nat * ev) -> Prop :=
| ve_nil : forall hs, valid_exec cu eager hs []
| ve_cons : forall hs w e rest,
    legal cu eager hs w e -> valid_exec cu eager (app_at hs w e) rest -> valid_exec cu eager hs ((w, e) :: rest).

Lemma opt_pair_eqb_eq : forall a b, opt_pair_eqb a b = true -> a = b.
Proof.
  intros [[x y]|] [[x' y']|]; simpl; intros H; try discriminate; auto.
  apply andb_true_iff in H. destruct H as [H1 H2].
  apply Nat.eqb_eq in H1. apply Nat.eqb_eq in H2. congruence.
Qed.

Lemma opt_val_eqb_eq : forall a b, opt_val_eqb a b = true -> a = b.
Proof.
  intros [x|] [y|]; simpl; intros H; try discriminate; auto. apply Z.eqb_eq in H. congruence.
Qed.

Lemma existsb_eqb_false : forall q l, existsb (Nat.eqb q) l = false -> ~ In q l.
Proof.
  intros q l H Hin. assert (existsb (Nat.eqb q) l = true).
  { apply existsb_exists. exists q. split; auto. apply Nat.eqb_refl. }
  congruence.
Qed.

Lemma valid_peer_spec : forall cu c w peer, valid_peer cu c w peer = true ->
  exists me wp, lrank cu c w = Some me /\ wrank cu c peer = Some wp.
Proof.
  intros cu c w peer H. unfold valid_peer in H.
  destruct (lrank cu c w); destruct (wrank cu c peer); try discriminate; eauto.
Qed.

Lemma wait_cand_legal : forall cu eager hs w q p v, w < length hs ->
  wait_cand cu eager hs w q = Some (p, v) -> legal cu eager hs w (EWait q p v).
Proof.
  intros cu eager hs w q p v Hw H. unfold wait_cand in H.
  destruct (existsb (Nat.eqb q) (completed (hist_of hs w))) eqn:Ec; try discriminate.
  apply existsb_eqb_false in Ec.
  destruct (req_of (hist_of hs w) q) as [[]|] eqn:Er; try discriminate.
  - destruct (negb sync && eager w q) eqn:Ee.
    + inversion H; subst. eapply L_wait_send; eauto. left.
      apply andb_true_iff in Ee. destruct Ee as [Hs He]. destruct sync; simpl in Hs; try discriminate. auto.
    + destruct (send_partner cu hs w q) as [pp|] eqn:Es; try discriminate.
      inversion H; subst. eapply L_wait_send; eauto.
  - destruct (recv_partner cu hs w q) as [[[ws pq] v0]|] eqn:Ep; try discriminate.
    inversion H; subst. eapply L_wait_recv; eauto.
Qed.

Lemma ev_ok_legal : forall cu eager hs w e, ev_ok cu eager hs w e = true -> legal cu eager hs w e.
Proof.
  intros cu eager hs w e H. unfold ev_ok in H. apply andb_true_iff in H. destruct H as [Hw H].
  apply Nat.ltb_lt in Hw. destruct e.
  - destruct (valid_peer_spec _ _ _ _ H) as (me & wp & H1 & H2). eapply L_send; eauto.
  - destruct (valid_peer_spec _ _ _ _ H) as (me & wp & H1 & H2). eapply L_recv; eauto.
  - destruct (wait_cand cu eager hs w q) as [[p' v']|] eqn:E; try discriminate.
    apply andb_true_iff in H. destruct H as [Hp Hv].
    apply opt_pair_eqb_eq in Hp. apply Z.eqb_eq in Hv. subst. apply wait_cand_legal; auto.
  - destruct ok.
    + destruct (wait_cand cu eager hs w q) as [[p' v']|] eqn:E; try discriminate.
      apply andb_true_iff in H. destruct H as [Hp Hv].
      apply opt_pair_eqb_eq in Hp. apply Z.eqb_eq in Hv. subst. apply L_test_ok. apply wait_cand_legal; auto.
    + destruct (req_of (hist_of hs w) q) eqn:Er; try discriminate.
      apply negb_true_iff in H. apply existsb_eqb_false in H. eapply L_test_fail; eauto.
  - destruct (lrank cu c w) eqn:El; try discriminate.
    apply andb_true_iff in H. destruct H as [Hr Hn].
    apply Nat.ltb_lt in Hr. apply Nat.eqb_eq in Hn. eapply L_enter; eauto.
  - destruct (exit_cand cu hs w c) as [[vo' l]|] eqn:E; try discriminate.
    apply opt_val_eqb_eq in H. subst. eapply L_exit; eauto.
Qed.

Theorem replay_from_sound : forall cu eager log hs,
  replay_from cu eager hs log = true -> valid_exec cu eager hs log.
Proof.
  intros cu eager. induction log as [|[w e] rest IH]; simpl; intros hs H.
  - constructor.
  - apply andb_true_iff in H. destruct H as [H1 H2]. constructor; auto. apply ev_ok_legal. auto.
Qed.

Theorem replay_sound : forall cu eg n log,
  replay cu eg n log = true -> valid_exec cu (eager_of eg) (init_hists n) log.
Proof. intros. apply replay_from_sound. auto. Qed.

(* ------------------------------------------------------------------ the skeleton extracted from an accepted log *)

Lemma nth_error_map_seq : forall A (f : nat -> A) n a w, w < n -> nth_error (map f (seq a n)) w = Some (f (a + w)).
Proof.
  induction n; intros a w Hw; [lia|]. destruct w; simpl.
  - f_equal. f_equal. lia.
  - rewrite IHn by lia. f_equal. f_equal. lia.
Qed.

Lemma upd_map_seq : forall A (f g : nat -> A) n a w x, w < n -> g (a + w) = x ->
  (forall i, i <> a + w -> g i = f i) -> upd (map f (seq a n)) w x = map g (seq a n).
Proof.
  induction n; intros a w x Hw Hx Hg; [lia|]. destruct w; simpl.
  - f_equal. { rewrite <- Hx. f_equal. lia. }
    apply map_ext_in. intros i Hi. apply in_seq in Hi. symmetry. apply Hg. lia.
  - f_equal. { symmetry. apply Hg. lia. }
    apply IHn; try lia. { rewrite <- Hx. f_equal. lia. }
    intros i Hi. apply Hg. lia.
Qed.

Lemma proj_app : forall l l' w, proj (l ++ l') w = proj l w ++ proj l' w.
Proof. intros. unfold proj. apply filter_map_app. Qed.

Lemma proj_cons_eq : forall w e rest, proj ((w, e) :: rest) w = e :: proj rest w.
Proof. intros. unfold proj. simpl. rewrite Nat.eqb_refl. auto. Qed.

Lemma proj_cons_neq : forall w w' e rest, w <> w' -> proj ((w, e) :: rest) w' = proj rest w'.
Proof. intros. unfold proj. simpl. destruct (Nat.eqb_spec w w'); try contradiction. auto. Qed.

Definition skel_state (n : nat) (pre post : list (nat * ev)) : state (list ev) :=
  map (fun w => (proj post w, proj pre w)) (seq 0 n).

Lemma hists_of_skel_state : forall n pre post, hists_of (skel_state n pre post) = map (proj pre) (seq 0 n).
Proof. intros. unfold hists_of, skel_state. rewrite map_map. auto. Qed.

Lemma skel_state_step : forall n pre w e rest, w < n ->
  upd (skel_state n pre ((w, e) :: rest)) w (proj rest w, proj pre w ++ [e]) = skel_state n (pre ++ [(w, e)]) rest.
Proof.
  intros. unfold skel_state. apply upd_map_seq; auto; simpl.
  - rewrite proj_app, proj_cons_eq. auto.
  - intros i Hi. rewrite proj_app, (proj_cons_neq w i) by auto. rewrite (proj_cons_neq w i) by auto.
    unfold proj at 3. simpl. rewrite app_nil_r. auto.
Qed.

Definition no_test (l : list ev) : Prop := forallb (fun e => negb (is_test e)) l = true.

Lemma skel_react : forall cu eager hs w e t tb,
  ev_ok cu eager hs w e = true -> is_test e = false ->
  react cu eager skel_prog hs w (e :: t) tb = Some (t, e).
Proof.
  intros cu eager hs w e t tb H Ht. unfold react, skel_prog. destruct e; try discriminate.
  - rewrite H. auto.
  - rewrite H. auto.
  - unfold ev_ok in H. apply andb_true_iff in H. destruct H as [_ H].
    destruct (wait_cand cu eager hs w q) as [[p' v']|]; try discriminate.
    apply andb_true_iff in H. destruct H as [Hp Hv].
    apply opt_pair_eqb_eq in Hp. apply Z.eqb_eq in Hv. subst. auto.
  - rewrite H. auto.
  - unfold ev_ok in H. apply andb_true_iff in H. destruct H as [_ H].
    destruct (exit_cand cu hs w c) as [[vo' l]|]; try discriminate.
    apply opt_val_eqb_eq in H. subst. auto.
Qed.

Lemma skel_good_no_test : forall w l, no_test l -> forall q k, skel_prog w l <> ATest q k.
Proof.
  intros w l H q k. unfold skel_prog. destruct l as [|[] t]; try discriminate.
Qed.

Lemma skel_good_step : forall cu eager hs w l tb l' e,
  no_test l -> react cu eager skel_prog hs w l tb = Some (l', e) -> no_test l'.
Proof.
  intros cu eager hs w l tb l' e Hg H. unfold react, skel_prog in H.
  destruct l as [|e0 t]; try discriminate.
  assert (Ht : no_test t). { unfold no_test in *. simpl in Hg. apply andb_true_iff in Hg. tauto. }
  destruct e0.
  - destruct (ev_ok cu eager hs w (ESend sync c dst tag v)); inversion H; subst; auto.
  - destruct (ev_ok cu eager hs w (ERecv c src tag)); inversion H; subst; auto.
  - destruct (wait_cand cu eager hs w q) as [[p' v']|]; inversion H; subst; auto.
  - unfold no_test in Hg. simpl in Hg. discriminate.
  - destruct (ev_ok cu eager hs w (EEnter c kc root v)); inversion H; subst; auto.
  - destruct (exit_cand cu hs w c) as [[vo' l0]|]; inversion H; subst; auto.
Qed.

Lemma replay_exec : forall cu eager n post pre,
  replay_from cu eager (map (proj pre) (seq 0 n)) post = true -> skeleton_ok post = true ->
  exec cu eager skel_prog (skel_state n pre post) (map fst post) = Some (skel_state n (pre ++ post) []).
Proof.
  intros cu eager n. induction post as [|[w e] rest IH]; intros pre Hr Hs; simpl.
  - rewrite app_nil_r. auto.
  - simpl in Hr, Hs. apply andb_true_iff in Hr. destruct Hr as [Hok Hr].
    apply andb_true_iff in Hs. destruct Hs as [Hte Hs]. apply negb_true_iff in Hte.
    assert (Hw : w < n).
    { unfold ev_ok in Hok. apply andb_true_iff in Hok. destruct Hok as [Hw _].
      apply Nat.ltb_lt in Hw. rewrite map_length, seq_length in Hw. auto. }
    assert (Hn : nth_error (skel_state n pre ((w, e) :: rest)) w = Some (e :: proj rest w, proj pre w)).
    { unfold skel_state. rewrite nth_error_map_seq by auto. simpl. rewrite proj_cons_eq. auto. }
    unfold fire. rewrite Hn. rewrite hists_of_skel_state.
    rewrite (skel_react cu eager _ w e (proj rest w) true Hok Hte).
    rewrite skel_state_step by auto.
    replace (pre ++ (w, e) :: rest) with ((pre ++ [(w, e)]) ++ rest) by (rewrite <- app_assoc; auto).
    apply IH; auto.
    (* the histories after the step *)
    assert (He : app_at (map (proj pre) (seq 0 n)) w e = map (proj (pre ++ [(w, e)])) (seq 0 n)).
    { rewrite <- (hists_of_skel_state n pre ((w, e) :: rest)).
      rewrite <- (hists_of_upd _ (skel_state n pre ((w, e) :: rest)) w _ _ (proj rest w) e Hn).
      rewrite skel_state_step by auto. apply hists_of_skel_state. }
    rewrite <- He. auto.
Qed.

Lemma exec_steps : forall cu eager L (P : prog L) sched s t,
  exec cu eager P s sched = Some t -> steps cu eager P (length sched) s t.
Proof.
  intros cu eager L P. induction sched as [|w rest IH]; simpl; intros s t H.
  - inversion H. constructor.
  - destruct (fire cu eager P s w true) as [s'|] eqn:E; try discriminate.
    econstructor; eauto. exists w, true. auto.
Qed.

Lemma init_hists_proj : forall n, init_hists n = map (proj []) (seq 0 n).
Proof.
  intros n. unfold init_hists. generalize 0. induction n; simpl; intros; auto. f_equal. auto.
Qed.

Lemma proj_no_test : forall log w, skeleton_ok log = true -> no_test (proj log w).
Proof.
  induction log as [|[w' e] rest IH]; intros w H; simpl in *.
  - reflexivity.
  - apply andb_true_iff in H. destruct H as [H1 H2]. unfold proj. simpl.
    destruct (w' =? w); [|apply IH; auto].
    unfold no_test. simpl. rewrite H1. apply IH. auto.
Qed.

Lemma skel_init_state : forall n log, skel_init n log = skel_state n [] log.
Proof. intros. unfold skel_init, skel_state. apply map_ext. intros. auto. Qed.

Lemma skel_good_init : forall n log, skeleton_ok log = true ->
  Forall (fun x : list ev * list ev => no_test (fst x)) (skel_init n log).
Proof.
  intros. unfold skel_init. apply Forall_forall. intros x Hx. apply in_map_iff in Hx.
  destruct Hx as (w & <- & _). simpl. apply proj_no_test. auto.
Qed.

Definition skel_final (n : nat) (log : list (nat * ev)) : state (list ev) := skel_state n log [].

Lemma skel_final_done : forall n log, all_done skel_prog (skel_final n log).
Proof.
  intros n log w l h H. unfold skel_final, skel_state in H.
  destruct (Nat.lt_ge_cases w n) as [Hw|Hw].
  - rewrite nth_error_map_seq in H by auto. inversion H. auto.
  - assert (nth_error (map (fun w0 : nat => (proj [] w0, proj log w0)) (seq 0 n)) w = None).
    { apply nth_error_None. rewrite map_length, seq_length. auto. }
    congruence.
Qed.

(* An accepted, Test-free log IS a complete execution of the skeleton programs (the per-rank projections of
   the log): it ends with every rank done and every history equal to that rank's projection. *)
Theorem accepted_log_is_execution : forall cu eg n log,
  replay cu eg n log = true -> skeleton_ok log = true ->
  steps cu (eager_of eg) skel_prog (length log) (skel_init n log) (skel_final n log) /\
  all_done skel_prog (skel_final n log) /\
  hists_of (skel_final n log) = map (proj log) (seq 0 n).
Proof.
  intros cu eg n log Hr Hs. split; [|split].
  - rewrite skel_init_state. unfold replay in Hr. rewrite init_hists_proj in Hr.
    pose proof (replay_exec cu (eager_of eg) n log [] Hr Hs) as He. simpl in He.
    apply exec_steps in He. rewrite map_length in He. auto.
  - apply skel_final_done.
  - apply hists_of_skel_state.
Qed.

(* Hence, by confluence: under the buffering behaviour of the logged run (and under any behaviour that
   buffers at least as much) EVERY schedule of the skeleton terminates, within the same number of
   steps, never deadlocks, and can only end in the state the log ended in — same events, same
   matching, same delivered payloads on every rank. *)
Theorem skeleton_schedule_independent : forall cu eg n log,
  replay cu eg n log = true -> skeleton_ok log = true ->
  forall e, eager_le (eager_of eg) e ->
  forall m u, steps cu e skel_prog m (skel_init n log) u ->
    m <= length log /\ steps cu e skel_prog (length log - m) u (skel_final n log) /\
    ~ deadlock cu skel_prog e u /\
    (terminal cu e skel_prog u -> u = skel_final n log).
Proof.
  intros cu eg n log Hr Hs e Hle m u Hu.
  destruct (accepted_log_is_execution cu eg n log Hr Hs) as (Hex & Hd & _).
  pose proof (skel_good_init n log Hs) as Hg.
  assert (Hex' : steps cu e skel_prog (length log) (skel_init n log) (skel_final n log)).
  { eapply (steps_eager_mono (good:=no_test)); eauto using skel_good_no_test, skel_good_step. }
  destruct (one_completes_all_complete (good:=no_test) skel_good_no_test (skel_good_step cu) Hg Hex'
              (all_done_terminal cu e Hd) Hd Hu) as (H1 & H2 & H3).
  repeat split; auto.
  intros Ht. destruct (steps_terminal_O Ht H2) as [_ ->]. auto.
Qed.

(* In particular a log produced with NO buffered standard send covers every buffering behaviour. *)
Corollary skeleton_deadlock_free_all_buffering : forall cu n log,
  replay cu [] n log = true -> skeleton_ok log = true ->
  forall e m u, steps cu e skel_prog m (skel_init n log) u ->
    m <= length log /\ ~ deadlock cu skel_prog e u /\ (terminal cu e skel_prog u -> u = skel_final n log).
Proof.
  intros cu n log Hr Hs e m u Hu.
  destruct (skeleton_schedule_independent cu [] n log Hr Hs e) with (m:=m) (u:=u) as (H1 & _ & H3 & H4); auto.
  intros w q H. simpl in H. discriminate.
Qed.

(* ------------------------------------------------------------------ every receive is matched exactly once *)

Lemma in_enum_from : forall A (l : list A) n q e, In (q, e) (enum_from n l) -> n <= q /\ nth_error l (q - n) = Some e.
Proof.
  induction l; simpl; intros n q e H; [contradiction|]. destruct H as [H|H].
  - inversion H; subst. rewrite Nat.sub_diag. auto.
  - apply IHl in H. destruct H as [Hle Hn]. split; [lia|].
    replace (q - n) with (S (q - S n)) by lia. auto.
Qed.

Lemma in_filter_map : forall A B (f : A -> option B) l y, In y (filter_map f l) -> exists x, In x l /\ f x = Some y.
Proof.
  induction l; simpl; intros y H; [contradiction|].
  destruct (f a) eqn:E.
  - destruct H as [<-|H]; eauto. destruct (IHl _ H) as (x & Hx & Hf). eauto.
  - destruct (IHl _ H) as (x & Hx & Hf). eauto.
Qed.

Lemma index_of_nth_error : forall l x i, index_of x l = Some i -> nth_error l i = Some x.
Proof.
  induction l; simpl; intros x i H; try discriminate.
  destruct (Nat.eqb_spec x a).
  - inversion H; subst. auto.
  - destruct (index_of x l) eqn:E; try discriminate. inversion H; subst. simpl. auto.
Qed.

(* a send listed on a channel is a request of that history with exactly that channel and payload *)
Lemma chan_sends_req : forall h c d t i pq v, nth_error (chan_sends h c d t) i = Some (pq, v) ->
  exists sync, req_of h pq = Some (ESend sync c d t v).
Proof.
  intros h c d t i pq v H. apply nth_error_In in H. unfold chan_sends in H.
  apply in_filter_map in H. destruct H as ([q e] & Hin & Hf). simpl in Hf.
  unfold reqs in Hin. apply in_enum_from in Hin. destruct Hin as [_ Hn]. rewrite Nat.sub_0_r in Hn.
  destruct e; try discriminate.
  destruct (Nat.eqb_spec c0 c); simpl in Hf; try discriminate.
  destruct (Nat.eqb_spec dst d); simpl in Hf; try discriminate.
  destruct (Nat.eqb_spec tag t); simpl in Hf; try discriminate.
  inversion Hf; subst. exists sync. auto.
Qed.

(* request numbers listed on a channel are strictly increasing, hence pairwise distinct *)
Lemma filter_map_enum_sorted : forall A B (f : nat * A -> option (nat * B)),
  (forall q a q' b, f (q, a) = Some (q', b) -> q' = q) ->
  forall l n, (forall x, In x (map fst (filter_map f (enum_from n l))) -> n <= x) /\
              NoDup (map fst (filter_map f (enum_from n l))).
Proof.
  intros A B f Hf. induction l; simpl; intros n.
  - split; [intros x []|constructor].
  - destruct (IHl (S n)) as [Hge Hnd]. destruct (f (n, a)) as [[q' b]|] eqn:E.
    + apply Hf in E. subst q'. simpl. split.
      * intros x [<-|Hx]; auto. apply Hge in Hx. lia.
      * constructor; auto. intros Hin. apply Hge in Hin. lia.
    + split; auto. intros x Hx. apply Hge in Hx. lia.
Qed.

Lemma chan_sends_nodup : forall h c d t, NoDup (map fst (chan_sends h c d t)).
Proof.
  intros. unfold chan_sends, reqs. apply filter_map_enum_sorted.
  intros q a q' b H. simpl in H. destruct a; try discriminate.
  destruct (Nat.eqb c0 c && Nat.eqb dst d && Nat.eqb tag t); try discriminate. inversion H. auto.
Qed.

Lemma nth_error_fst_inj : forall A B (l : list (A * B)) i j a b b',
  NoDup (map fst l) -> nth_error l i = Some (a, b) -> nth_error l j = Some (a, b') -> i = j.
Proof.
  intros A B l i j a b b' Hnd Hi Hj.
  assert (Hi' : nth_error (map fst l) i = Some a) by (erewrite map_nth_error; eauto; auto).
  assert (Hj' : nth_error (map fst l) j = Some a) by (erewrite map_nth_error; eauto; auto).
  eapply NoDup_nth_error; eauto.
  - apply nth_error_Some. congruence.
  - congruence.
Qed.

Lemma index_of_inj : forall l x y i, index_of x l = Some i -> index_of y l = Some i -> x = y.
Proof.
  intros l x y i Hx Hy. apply index_of_nth_error in Hx. apply index_of_nth_error in Hy. congruence.
Qed.

Lemma nth_error_NoDup_inj : forall (l : list nat) i j x, NoDup l -> nth_error l i = Some x -> nth_error l j = Some x -> i = j.
Proof.
  intros l i j x Hnd Hi Hj. eapply NoDup_nth_error; eauto.
  - apply nth_error_Some. congruence.
  - congruence.
Qed.

(* The matching of the model: the partner of a receive is a send request of the named source, on the
   communicator and with the tag the receive names, addressed to the receiver, carrying the delivered payload;
   and no other receive (of any rank) is matched with that send.  (Matching is a function by construction:
   [recv_partner] returns at most one send.) *)
Theorem recv_matched_once : forall cu hs w q ws pq v,
  (forall c, NoDup (members cu c)) ->
  recv_partner cu hs w q = Some (ws, pq, v) ->
  (exists sync c src tag me,
      req_of (hist_of hs w) q = Some (ERecv c src tag) /\
      wrank cu c src = Some ws /\ lrank cu c w = Some me /\
      req_of (hist_of hs ws) pq = Some (ESend sync c me tag v)) /\
  (forall w' q' v', recv_partner cu hs w' q' = Some (ws, pq, v') -> w' = w /\ q' = q).
Proof.
  intros cu hs w q ws pq v Hcu H.
  assert (Main : forall w q v, recv_partner cu hs w q = Some (ws, pq, v) ->
     exists sync c src tag me i,
      req_of (hist_of hs w) q = Some (ERecv c src tag) /\
      wrank cu c src = Some ws /\ lrank cu c w = Some me /\
      req_of (hist_of hs ws) pq = Some (ESend sync c me tag v) /\
      index_of q (chan_recvs (hist_of hs w) c src tag) = Some i /\
      nth_error (chan_sends (hist_of hs ws) c me tag) i = Some (pq, v)).
  { clear. intros w q v H. unfold recv_partner in H.
    destruct (req_of (hist_of hs w) q) as [[]|] eqn:Er; try discriminate.
    destruct (lrank cu c w) as [me|] eqn:El; try discriminate.
    destruct (wrank cu c src) as [ws'|] eqn:Ew; try discriminate.
    destruct (index_of q (chan_recvs (hist_of hs w) c src tag)) as [i|] eqn:Ei; try discriminate.
    destruct (nth_error (chan_sends (hist_of hs ws') c me tag) i) as [[pq' v']|] eqn:En; try discriminate.
    inversion H; subst.
    destruct (chan_sends_req _ _ _ _ _ _ _ En) as [sync Hs].
    exists sync, c, src, tag, me, i. repeat split; auto. }
  destruct (Main _ _ _ H) as (sync & c & src & tag & me & i & Hr & Hw & Hl & Hs & Hi & Hn).
  split.
  - exists sync, c, src, tag, me. auto.
  - intros w' q' v' H'.
    destruct (Main _ _ _ H') as (sync' & c' & src' & tag' & me' & i' & Hr' & Hw' & Hl' & Hs' & Hi' & Hn').
    rewrite Hs in Hs'. inversion Hs'; subst c' me' tag' v'.
    assert (w' = w) by (eapply index_of_inj; [exact Hl'|exact Hl]). subst w'.
    assert (src' = src).
    { unfold wrank in *. eapply nth_error_NoDup_inj; eauto. }
    subst src'.
    assert (i' = i) by (eapply nth_error_fst_inj; eauto using chan_sends_nodup). subst i'.
    split; auto. eapply index_of_inj; eauto.
Qed.

Lemma index_of_nth_NoDup : forall l i x, NoDup l -> nth_error l i = Some x -> index_of x l = Some i.
Proof.
  induction l; intros i x Hnd H; destruct i; simpl in *; try discriminate.
  - inversion H; subst. rewrite Nat.eqb_refl. auto.
  - inversion Hnd; subst. destruct (Nat.eqb_spec x a).
    + subst. exfalso. apply H2. eapply nth_error_In; eauto.
    + rewrite (IHl _ _ H3 H). auto.
Qed.

(* the two sides of the matching agree: the send that a receive is matched with is matched with that receive
   (so a synchronous send waits exactly for the receive that will take its payload) *)
Theorem matching_symmetric : forall cu hs w q ws pq v,
  (forall c, NoDup (members cu c)) ->
  recv_partner cu hs w q = Some (ws, pq, v) -> send_partner cu hs ws pq = Some (w, q).
Proof.
  intros cu hs w q ws pq v Hcu H. unfold recv_partner in H.
  destruct (req_of (hist_of hs w) q) as [[]|] eqn:Er; try discriminate.
  destruct (lrank cu c w) as [me|] eqn:El; try discriminate.
  destruct (wrank cu c src) as [ws'|] eqn:Ew; try discriminate.
  destruct (index_of q (chan_recvs (hist_of hs w) c src tag)) as [i|] eqn:Ei; try discriminate.
  destruct (nth_error (chan_sends (hist_of hs ws') c me tag) i) as [[pq' v']|] eqn:En; try discriminate.
  inversion H; subst ws' pq' v'.
  destruct (chan_sends_req _ _ _ _ _ _ _ En) as [sync Hs].
  unfold send_partner. rewrite Hs.
  assert (Hl2 : lrank cu c ws = Some src).
  { unfold lrank, wrank in *. apply index_of_nth_NoDup; auto. }
  assert (Hw2 : wrank cu c me = Some w).
  { unfold lrank, wrank in *. apply index_of_nth_error. auto. }
  rewrite Hl2, Hw2.
  assert (Hi2 : index_of pq (map fst (chan_sends (hist_of hs ws) c me tag)) = Some i).
  { apply index_of_nth_NoDup. apply chan_sends_nodup. erewrite map_nth_error; eauto. auto. }
  rewrite Hi2. rewrite (index_of_nth_error _ _ _ Ei). auto.
Qed.

(* and the executions accepted by the checker only ever deliver the payload of that partner *)
Theorem legal_wait_delivers_partner : forall cu eager hs w q ws pq v,
  legal cu eager hs w (EWait q (Some (ws, pq)) v) -> recv_partner cu hs w q = Some (ws, pq, v).
Proof. intros cu eager hs w q ws pq v H. inversion H; subst; auto. Qed.

(* a send completes only with its buffer unchanged: the completion event carries the payload that was posted *)
Theorem legal_send_wait_buffer_unchanged : forall cu eager hs w q v,
  legal cu eager hs w (EWait q None v) ->
  exists sync c dst tag, req_of (hist_of hs w) q = Some (ESend sync c dst tag v).
Proof. intros cu eager hs w q v H. inversion H; subst; eauto. Qed.

(* ------------------------------------------------------------------ non-vacuity and necessity of the premise *)

(* two ranks exchanging a message with Issend/Irecv/Wait and meeting in a barrier: complete under the
   all-rendezvous behaviour, accepted by the checker, premises hold *)
Definition ex_cu : list (list nat) := [[0; 1]].
Definition ex_log : list (nat * ev) :=
  [ (0, ESend true 0 1 7 42%Z); (1, ERecv 0 0 7); (1, EWait 0 (Some (0, 0)) 42%Z); (0, EWait 0 None 42%Z);
    (0, EEnter 0 0 0 0%Z); (1, EEnter 0 0 0 0%Z); (1, EExit 0 None); (0, EExit 0 None) ].

Example ex_log_accepted : replay ex_cu [] 2 ex_log = true /\ skeleton_ok ex_log = true.
Proof. vm_compute. auto. Qed.

(* the receiver cannot complete before the send is posted, the synchronous sender not before the receive is *)
Example ex_recv_needs_send : replay ex_cu [] 2 [(1, ERecv 0 0 7); (1, EWait 0 (Some (0, 0)) 42%Z)] = false.
Proof. vm_compute. auto. Qed.
Example ex_ssend_needs_recv : replay ex_cu [] 2 [(0, ESend true 0 1 7 42%Z); (0, EWait 0 None 42%Z)] = false.
Proof. vm_compute. auto. Qed.
(* ... a buffered standard send may; a modified send buffer is rejected; so is a wrong payload or partner *)
Example ex_eager_send_completes : replay ex_cu [(0, 0)] 2 [(0, ESend false 0 1 7 42%Z); (0, EWait 0 None 42%Z)] = true.
Proof. vm_compute. auto. Qed.
Example ex_modified_buffer_rejected : replay ex_cu [(0, 0)] 2 [(0, ESend false 0 1 7 42%Z); (0, EWait 0 None 43%Z)] = false.
Proof. vm_compute. auto. Qed.
Example ex_wrong_payload_rejected :
  replay ex_cu [] 2 [(0, ESend true 0 1 7 42%Z); (1, ERecv 0 0 7); (1, EWait 0 (Some (0, 0)) 41%Z)] = false.
Proof. vm_compute. auto. Qed.
(* non-overtaking: the second receive on a channel cannot take the first message *)
Example ex_overtaking_rejected :
  replay ex_cu [] 2 [(0, ESend true 0 1 7 1%Z); (0, ESend true 0 1 7 2%Z); (1, ERecv 0 0 7); (1, ERecv 0 0 7);
                     (1, EWait 1 (Some (0, 0)) 1%Z)] = false.
Proof. vm_compute. auto. Qed.
(* a barrier cannot be left before everybody entered; a Bcast root can, a non-root cannot before the root *)
Example ex_barrier_needs_all : replay ex_cu [] 2 [(0, EEnter 0 0 0 0%Z); (0, EExit 0 None)] = false.
Proof. vm_compute. auto. Qed.
Example ex_bcast_root_leaves : replay ex_cu [] 2 [(0, EEnter 0 2 0 5%Z); (0, EExit 0 (Some 5%Z))] = true.
Proof. vm_compute. auto. Qed.
Example ex_bcast_nonroot_waits : replay ex_cu [] 2 [(1, EEnter 0 2 0 0%Z); (1, EExit 0 (Some 5%Z))] = false.
Proof. vm_compute. auto. Qed.
(* mismatching collectives (Bcast vs Barrier) block *)
Example ex_collective_mismatch : replay ex_cu [] 2 [(0, EEnter 0 2 0 5%Z); (1, EEnter 0 0 0 0%Z); (1, EExit 0 None)] = false.
Proof. vm_compute. auto. Qed.

(* Necessity of "no Test result is branched on": rank 0 polls once with Test and then does nothing; rank 1
   posts the matching receive.  Both orders are executions, both final states are terminal, they differ. *)
Definition test_prog : prog nat :=
  fun w l =>
    match w, l with
    | 0, 0 => ASend true 0 1 7 42%Z 1
    | 0, 1 => ATest 0 (fun r => match r with Some _ => 3 | None => 2 end)
    | 1, 0 => ARecv 0 0 7 1
    | _, _ => ADone
    end.

Example test_breaks_confluence :
  exists s0 t t',
    steps ex_cu (fun _ _ => false) test_prog 3 s0 t /\ terminal ex_cu (fun _ _ => false) test_prog t /\
    steps ex_cu (fun _ _ => false) test_prog 3 s0 t' /\ terminal ex_cu (fun _ _ => false) test_prog t' /\
    t <> t'.
Proof.
  set (e0 := fun (_ _ : nat) => false).
  set (s0 := [(0, []); (0, [])] : state nat).
  (* schedule 0,0,1: the Test fails;  schedule 0,1,0: it succeeds *)
  destruct (exec ex_cu e0 test_prog s0 [0; 0; 1]) as [t|] eqn:E1; [|vm_compute in E1; discriminate].
  destruct (exec ex_cu e0 test_prog s0 [0; 1; 0]) as [t'|] eqn:E2; [|vm_compute in E2; discriminate].
  exists s0, t, t'.
  pose proof (exec_steps _ _ _ _ _ _ _ E1) as S1. pose proof (exec_steps _ _ _ _ _ _ _ E2) as S2.
  vm_compute in E1. vm_compute in E2. inversion E1; inversion E2; subst t t'.
  repeat split; auto.
  - intros w tb. destruct w as [|[|w]]; destruct tb; try (vm_compute; reflexivity);
      unfold fire; simpl; destruct w; reflexivity.
  - intros w tb. destruct w as [|[|w]]; destruct tb; try (vm_compute; reflexivity);
      unfold fire; simpl; destruct w; reflexivity.
  - discriminate.
Qed.
