(* C18 — the n-D matrices apply the 1-D operator along each axis of a row-major grid function. *)
From Coq Require Import Arith Lia Ring List.
From PySDC Require Import Model.FDnd.

Section FDndProofs.
  Context {K : Type} (kO kI : K) (kadd kmul ksub : K -> K -> K) (kopp : K -> K).
  Hypothesis Rth : ring_theory kO kI kadd kmul ksub kopp (@eq K).
  Add Ring KringFD : Rth.
  Local Infix "+!" := kadd (at level 50, left associativity).
  Local Infix "*!" := kmul (at level 40, left associativity).
  Notation sumn := (sumn kO kadd).
  Notation delta := (delta kO kI).
  Notation kron := (kron kmul).

  Lemma sumn_ext f g n : (forall k, k < n -> f k = g k) -> sumn f n = sumn g n.
  Proof. induction n as [|n IH]; intros H; cbn [FDnd.sumn]; [reflexivity|]. rewrite IH, H by (intros; try apply H; lia). reflexivity. Qed.
  Lemma sumn_plus f g n : sumn (fun k => f k +! g k) n = sumn f n +! sumn g n.
  Proof. induction n as [|n IH]; cbn [FDnd.sumn]; [ring|]. rewrite IH. ring. Qed.
  Lemma sumn_scal a f n : sumn (fun k => a *! f k) n = a *! sumn f n.
  Proof. induction n as [|n IH]; cbn [FDnd.sumn]; [ring|]. rewrite IH. ring. Qed.
  Lemma sumn_zero n : sumn (fun _ => kO) n = kO.
  Proof. induction n as [|n IH]; cbn [FDnd.sumn]; [reflexivity|]. rewrite IH. ring. Qed.
  Lemma sumn_app f p q : sumn f (p + q) = sumn f p +! sumn (fun b => f (p + b)) q.
  Proof.
    induction q as [|q IH]; cbn [FDnd.sumn].
    - rewrite Nat.add_0_r. ring.
    - rewrite Nat.add_succ_r. cbn [FDnd.sumn]. rewrite IH. ring.
  Qed.
  (* a sum over m*n flat indices is the double sum over (a, b), flat index a*n + b *)
  Lemma sumn_flatten f m n : sumn f (m * n) = sumn (fun a => sumn (fun b => f (a * n + b)) n) m.
  Proof.
    induction m as [|m IH]; cbn [FDnd.sumn Nat.mul]; [reflexivity|].
    rewrite Nat.add_comm, sumn_app, IH. reflexivity.
  Qed.
  Lemma sumn_delta_l j g n : j < n -> sumn (fun b => delta j b *! g b) n = g j.
  Proof.
    induction n as [|n IH]; intros Hj; [lia|]. cbn [FDnd.sumn]. unfold FDnd.delta at 2.
    destruct (Nat.eqb_spec j n) as [->|Hne].
    - rewrite (sumn_ext _ (fun _ => kO)).
      + rewrite sumn_zero. ring.
      + intros k Hk. unfold FDnd.delta. replace (Nat.eqb n k) with false by (symmetry; apply Nat.eqb_neq; lia). ring.
    - rewrite IH by lia. ring.
  Qed.

  Lemma divmod_flat a b n : b < n -> (a * n + b) / n = a /\ (a * n + b) mod n = b.
  Proof.
    intros Hb. split.
    - rewrite Nat.add_comm, Nat.div_add by lia. rewrite Nat.div_small by lia. reflexivity.
    - rewrite Nat.add_comm, Nat.mod_add by lia. apply Nat.mod_small. exact Hb.
  Qed.

  (* Kronecker PRODUCT of two (rectangular) matrices acts per axis: A (ma x na) on the first index, B (nbr x nbc) on the second *)
  Theorem kron_rect_apply nbr nbc na (A B : nat -> nat -> K) (u : nat -> nat -> K) i j :
    j < nbr -> 0 < nbc ->
    sumn (fun c => kron_rect kmul nbr nbc A B (i * nbr + j) c *! u (c / nbc) (c mod nbc)) (na * nbc)
    = sumn (fun a => A i a *! sumn (fun b => B j b *! u a b) nbc) na.
  Proof.
    intros Hj Hc. rewrite sumn_flatten.
    destruct (divmod_flat i j nbr Hj) as [Er1 Er2].
    apply sumn_ext. intros a Ha. rewrite <- sumn_scal. apply sumn_ext. intros b Hb.
    destruct (divmod_flat a b nbc Hb) as [Ec1 Ec2].
    unfold kron_rect. rewrite Er1, Er2, Ec1, Ec2. ring.
  Qed.

  (* 2-D: row (i, j), grid function u(a, b) stored row-major *)
  Theorem fd2_apply n (A : nat -> nat -> K) (u : nat -> nat -> K) i j :
    i < n -> j < n ->
    sumn (fun c => fd2_entry kO kI kadd kmul n A (i * n + j) c *! u (c / n) (c mod n)) (n * n)
    = sumn (fun k => A i k *! u k j) n +! sumn (fun k => A j k *! u i k) n.
  Proof.
    intros Hi Hj. rewrite sumn_flatten.
    destruct (divmod_flat i j n Hj) as [Er1 Er2].
    rewrite (sumn_ext _ (fun a => A i a *! u a j +! delta i a *! sumn (fun b => A j b *! u a b) n)).
    - rewrite sumn_plus. f_equal. rewrite (sumn_delta_l i (fun a => sumn (fun b => A j b *! u a b) n) n Hi). reflexivity.
    - intros a Ha.
      rewrite (sumn_ext _ (fun b => delta j b *! (A i a *! u a b) +! delta i a *! (A j b *! u a b))).
      + rewrite sumn_plus, sumn_scal. rewrite (sumn_delta_l j (fun b => A i a *! u a b) n Hj). reflexivity.
      + intros b Hb. destruct (divmod_flat a b n Hb) as [Ec1 Ec2].
        unfold fd2_entry, FDnd.kron. rewrite Er1, Er2, Ec1, Ec2. ring.
  Qed.

  Lemma divmod_flat3 a b d n : b < n -> d < n ->
    ((a * n + b) * n + d) / (n * n) = a /\ ((a * n + b) * n + d) mod (n * n) = b * n + d /\
    ((a * n + b) * n + d) / n = a * n + b /\ ((a * n + b) * n + d) mod n = d.
  Proof.
    intros Hb Hd.
    assert (E : (a * n + b) * n + d = a * (n * n) + (b * n + d)) by ring.
    assert (Hlt : b * n + d < n * n) by nia.
    repeat split.
    - rewrite E. apply (proj1 (divmod_flat a (b * n + d) (n * n) Hlt)).
    - rewrite E. apply (proj2 (divmod_flat a (b * n + d) (n * n) Hlt)).
    - apply (proj1 (divmod_flat (a * n + b) d n Hd)).
    - apply (proj2 (divmod_flat (a * n + b) d n Hd)).
  Qed.

  (* 3-D: row (i, j, l), grid function u(a, b, d) stored row-major: the three Kronecker terms act on the first, the last and
     the middle index respectively *)
  Theorem fd3_apply n (A : nat -> nat -> K) (u : nat -> nat -> nat -> K) i j l :
    i < n -> j < n -> l < n ->
    sumn (fun c => fd3_entry kO kI kadd kmul n A ((i * n + j) * n + l) c *! u (c / (n * n)) ((c / n) mod n) (c mod n)) (n * n * n)
    = sumn (fun k => A i k *! u k j l) n +! sumn (fun k => A l k *! u i j k) n +! sumn (fun k => A j k *! u i k l) n.
  Proof.
    intros Hi Hj Hl.
    rewrite sumn_flatten.
    rewrite sumn_flatten.
    destruct (divmod_flat3 i j l n Hj Hl) as (R1 & R2 & R3 & R4).
    destruct (divmod_flat i j n Hj) as [Rj1 Rj2].
    destruct (divmod_flat j l n Hl) as [Rl1 Rl2].
    (* pointwise form of the summand *)
    rewrite (sumn_ext _ (fun a => A i a *! u a j l
                                  +! delta i a *! sumn (fun k => A l k *! u a j k) n
                                  +! delta i a *! sumn (fun k => A j k *! u a k l) n)).
    - rewrite !sumn_plus.
      rewrite (sumn_delta_l i (fun a => sumn (fun k => A l k *! u a j k) n) n Hi).
      rewrite (sumn_delta_l i (fun a => sumn (fun k => A j k *! u a k l) n) n Hi). reflexivity.
    - intros a Ha.
      rewrite (sumn_ext _ (fun b => delta j b *! (A i a *! u a b l)
                                    +! delta j b *! (delta i a *! sumn (fun k => A l k *! u a b k) n)
                                    +! delta i a *! (A j b *! u a b l))).
      + rewrite !sumn_plus, !sumn_scal.
        rewrite (sumn_delta_l j (fun b => A i a *! u a b l) n Hj).
        rewrite (sumn_delta_l j (fun b => delta i a *! sumn (fun k => A l k *! u a b k) n) n Hj). ring.
      + intros b Hb.
        rewrite (sumn_ext _ (fun d => delta l d *! (delta j b *! (A i a *! u a b d))
                                      +! delta j b *! (delta i a *! (A l d *! u a b d))
                                      +! delta l d *! (delta i a *! (A j b *! u a b d)))).
        * rewrite !sumn_plus, !sumn_scal.
          rewrite (sumn_delta_l l (fun d => delta j b *! (A i a *! u a b d)) n Hl).
          rewrite (sumn_delta_l l (fun d => delta i a *! (A j b *! u a b d)) n Hl). ring.
        * intros d Hd.
          destruct (divmod_flat3 a b d n Hb Hd) as (C1 & C2 & C3 & C4).
          destruct (divmod_flat a b n Hb) as [Cb1 Cb2].
          destruct (divmod_flat b d n Hd) as [Cd1 Cd2].
          unfold fd3_entry, FDnd.kron. rewrite R1, R2, R3, R4, C1, C2, C3, C4, Rj1, Rj2, Cb1, Cb2.
          (* delta on the combined index (j*n+l) vs (b*n+d) *)
          assert (Ejl : delta (j * n + l) (b * n + d) = delta j b *! delta l d).
          { unfold FDnd.delta. destruct (Nat.eqb_spec j b) as [->|Hjb].
            - destruct (Nat.eqb_spec l d) as [->|Hld].
              + rewrite Nat.eqb_refl. ring.
              + replace (Nat.eqb (b * n + l) (b * n + d)) with false by (symmetry; apply Nat.eqb_neq; lia). ring.
            - replace (Nat.eqb (j * n + l) (b * n + d)) with false by (symmetry; apply Nat.eqb_neq; nia). ring. }
          assert (Eij : delta (i * n + j) (a * n + b) = delta i a *! delta j b).
          { unfold FDnd.delta. destruct (Nat.eqb_spec i a) as [->|Hia].
            - destruct (Nat.eqb_spec j b) as [->|Hjb].
              + rewrite Nat.eqb_refl. ring.
              + replace (Nat.eqb (a * n + j) (a * n + b)) with false by (symmetry; apply Nat.eqb_neq; lia). ring.
            - replace (Nat.eqb (i * n + j) (a * n + b)) with false by (symmetry; apply Nat.eqb_neq; nia). ring. }
          rewrite Ejl, Eij. ring.
  Qed.
End FDndProofs.
