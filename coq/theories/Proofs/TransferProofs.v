(* Proofs about Model/Transfer.v: FAS consistency (C10). *)
From Coq Require Import List Arith Bool Lia Ring.
From PySDC Require Import Model.Sweep Model.Transfer Proofs.SweepProofs.
Import ListNotations.

Section TransferProofs.
  Context {K : Type} (kO kI : K) (kadd kmul ksub : K -> K -> K) (kopp : K -> K) (keqb : K -> K -> bool).
  Hypothesis Rth : ring_theory kO kI kadd kmul ksub kopp (@eq K).
  Add Ring Kring3 : Rth.
  Hypothesis keqb_true : forall a b, keqb a b = true -> a = b.
  Context {Xf Xc : Type}.
  Notation Vf := (Xf -> K).
  Notation Vc := (Xc -> K).
  Local Infix "+!" := kadd (at level 50, left associativity).
  Local Infix "*!" := kmul (at level 40, left associativity).
  Local Infix "-!" := ksub (at level 50, left associativity).

  Variable Mf Mc : nat.
  Variable dtf dtc t0 : K.
  Variable nodes_c nodes_f : nat -> K.
  Variable Qf Qc : nat -> nat -> K.
  Variable feval_c : K -> Vc -> nat -> Vc.
  Variable feval_f : K -> Vf -> nat -> Vf.
  Variable Rs : Vf -> Vc.
  Variable Ps : Vc -> Vf.
  Variable Rcoll Pcoll : nat -> nat -> K.

  (* linearity of the space transfer operators (what C11 checks for the shipped classes) *)
  Hypothesis Rs_add : forall a b x, Rs (vadd kadd a b) x = Rs a x +! Rs b x.
  Hypothesis Rs_sub : forall a b x, Rs (vsub ksub a b) x = Rs a x -! Rs b x.
  Hypothesis Rs_zero : forall x, Rs (vzero kO) x = kO.
  Hypothesis Ps_sub : forall a b x, Ps (vsub ksub a b) x = Ps a x -! Ps b x.
  Hypothesis Ps_ext : forall a b, (forall y, a y = b y) -> forall x, Ps a x = Ps b x.

  Notation sumf := (sumf kO kadd).
  Variable np : nat.                            (* number of right-hand-side parts (1: generic_implicit/explicit, 2: IMEX) *)
  Notation restrict := (restrict kO kadd kmul ksub Mf Mc dtf dtc t0 nodes_c Qf Qc np feval_c Rs Rcoll).
  Notation resid_f := (residual_vec kO kadd kmul ksub Mf dtf Qf np).
  Notation resid_c := (residual_vec kO kadd kmul ksub Mc dtc Qc np).

  Lemma rcomb_spec (g : nat -> Vf) n x :
    rcomb kO kadd kmul Mf Rs Rcoll g n x = sumf (fun m => Rcoll n m *! Rs (g m) x) 1 Mf.
  Proof.
    unfold rcomb. rewrite (accum_spec kO kI kadd kmul ksub kopp Rth). unfold vzero, vscale. ring.
  Qed.

  (* Immediately after restriction the coarse level's defect is the restricted fine defect
     (rows of Rcoll summing to one — a table fact validated in C11). With an inherited fine tau
     (three levels) as well as without. *)
  Theorem coarse_defect_is_restricted_fine_defect Fu Ff Ftau :
    (forall m, 1 <= m <= Mf -> (Ftau 1 = None <-> Ftau m = None)) ->
    forall n, 1 <= n <= Mc ->
    sumf (fun m => Rcoll n m) 1 Mf = kI ->
    let G := restrict Fu Ff Ftau in
    forall x,
      resid_c (Gu G) (Gf G) (Gtau G) n x
      = sumf (fun m => Rcoll n m *! Rs (resid_f Fu Ff Ftau m) x) 1 Mf.
  Proof.
    intros Htau n Hn Hrow G x.
    unfold residual_vec at 1. unfold G, Transfer.restrict. cbn [Gu Gf Gtau].
    replace (Nat.eqb n 0) with false by (symmetry; apply Nat.eqb_neq; lia). cbn [Nat.eqb].
    (* right-hand side: push Rs through the fine defect *)
    assert (RHS : forall m, 1 <= m <= Mf ->
              Rs (resid_f Fu Ff Ftau m) x
              = Rs (integrate kO kadd kmul Mf dtf Qf np Ff m) x +! (Rs (Fu 0) x -! Rs (Fu m) x)
                +! Rs (match Ftau m with Some t => t | None => vzero kO end) x).
    { intros m Hm. unfold residual_vec. destruct (Ftau m) as [tm|].
      - rewrite Rs_add, Rs_add, Rs_sub. reflexivity.
      - rewrite Rs_add, Rs_sub, Rs_zero. ring. }
    pose (a := fun m => Rcoll n m *! Rs (integrate kO kadd kmul Mf dtf Qf np Ff m) x).
    pose (t := fun m => Rcoll n m *! Rs (match Ftau m with Some t => t | None => vzero kO end) x).
    pose (rc := fun m => Rcoll n m).
    pose (uu := fun m => Rcoll n m *! Rs (Fu m) x).
    assert (RS : sumf (fun m => Rcoll n m *! Rs (resid_f Fu Ff Ftau m) x) 1 Mf
                 = sumf a 1 Mf +! sumf t 1 Mf +! (Rs (Fu 0) x -! sumf uu 1 Mf)).
    { rewrite (sumf_ext kO kadd (fun m => Rcoll n m *! Rs (resid_f Fu Ff Ftau m) x)
                 (fun m => (a m +! t m) +! (Rs (Fu 0) x *! rc m -! uu m)) 1 Mf)
        by (intros m Hm; rewrite RHS by lia; unfold a, t, rc, uu; ring).
      rewrite (sumf_add kO kI kadd kmul ksub kopp Rth (fun m => a m +! t m) (fun m => Rs (Fu 0) x *! rc m -! uu m)).
      rewrite (sumf_add kO kI kadd kmul ksub kopp Rth a t).
      rewrite (sumf_sub kO kI kadd kmul ksub kopp Rth (fun m => Rs (Fu 0) x *! rc m) uu).
      rewrite (sumf_scal kO kI kadd kmul ksub kopp Rth (Rs (Fu 0) x) rc).
      unfold rc. rewrite Hrow. ring. }
    rewrite RS.
    destruct (Ftau 1) as [t1|] eqn:E1.
    - unfold vadd, vsub. rewrite !rcomb_spec. unfold a, t, uu. ring.
    - assert (Hz : sumf t 1 Mf = kO).
      { rewrite (sumf_ext kO kadd t (fun _ => kO) 1 Mf).
        - apply (sumf_zero kO kI kadd kmul ksub kopp Rth).
        - intros m Hm. unfold t. destruct (Htau m ltac:(lia)) as [H _]. rewrite (H eq_refl), Rs_zero. ring. }
      rewrite Hz. unfold vadd, vsub. rewrite !rcomb_spec. unfold a, uu. ring.
  Qed.

  (* hence: if the fine level holds its collocation solution (zero defect), so does the coarse level *)
  Corollary restricted_solution_has_zero_coarse_defect Fu Ff Ftau :
    (forall m, 1 <= m <= Mf -> (Ftau 1 = None <-> Ftau m = None)) ->
    (forall m, 1 <= m <= Mf -> forall y, resid_f Fu Ff Ftau m y = kO) ->
    (forall a b : Vf, (forall y, a y = b y) -> forall x, Rs a x = Rs b x) ->
    forall n, 1 <= n <= Mc -> sumf (fun m => Rcoll n m) 1 Mf = kI ->
    let G := restrict Fu Ff Ftau in
    forall x, resid_c (Gu G) (Gf G) (Gtau G) n x = kO.
  Proof.
    intros Htau Hzero Rs_ext n Hn Hrow G x.
    unfold G. rewrite (coarse_defect_is_restricted_fine_defect Fu Ff Ftau Htau n Hn Hrow x).
    rewrite (sumf_ext kO kadd _ (fun _ => kO) 1 Mf).
    - apply (sumf_zero kO kI kadd kmul ksub kopp Rth).
    - intros m Hm. rewrite (Rs_ext _ (vzero kO)); [rewrite Rs_zero; ring|].
      intros y. apply Hzero. lia.
  Qed.

  (* ---- the END POINT is FAS-consistent too (seeded C10-h): on node sets whose last node is the right end
     (weights = last row of Q; the controller requires it for PFASST) and with a time restriction whose last row
     picks the last fine node (nested right ends, a table fact validated in C11), the coarse end point computed
     right after restriction by the collocation update  u0 + dt sum_m w_m f_m + tau_M  is the space-restricted fine
     end point — with or without an inherited fine tau. *)
  Variable wf wc : nat -> K.
  Notation endp_f := (end_point kO kadd kmul Mf dtf wf np true true).
  Notation endp_c := (end_point kO kadd kmul Mc dtc wc np true true).

  Lemma sumf_unit (g : nat -> K) m :
    1 <= m -> sumf (fun j => (if Nat.eqb j m then kI else kO) *! g j) 1 m = g m.
  Proof.
    intros Hm. destruct m as [|n]; [lia|].
    rewrite (sumf_snoc kO kI kadd kmul ksub kopp Rth). change (1 + n) with (S n).
    rewrite Nat.eqb_refl.
    rewrite (sumf_ext kO kadd _ (fun _ => kO) 1 n).
    - rewrite (sumf_zero kO kI kadd kmul ksub kopp Rth). ring.
    - intros j Hj. replace (Nat.eqb j (S n)) with false by (symmetry; apply Nat.eqb_neq; lia). ring.
  Qed.

  Lemma end_point_is_defect_plus_last {X : Type} M dt (Q : nat -> nat -> K) (w : nat -> K)
        (u : nat -> X -> K) (f : nat -> nat -> X -> K) (tau : nat -> option (X -> K)) (x : X) :
    (forall j, 1 <= j <= M -> w j = Q M j) ->
    end_point kO kadd kmul M dt w np true true u f tau x
    = residual_vec kO kadd kmul ksub M dt Q np u f tau M x +! u M x.
  Proof.
    intros Hw. unfold end_point, residual_vec, integrate. cbn [andb negb].
    assert (E : sumf (fun j => vscale kmul (dt *! w j) (ftot kO kadd np (f j)) x) 1 M
                = sumf (fun j => vscale kmul (dt *! Q M j) (ftot kO kadd np (f j)) x) 1 M).
    { apply (sumf_ext kO kadd). intros j Hj. unfold vscale. rewrite Hw by lia. reflexivity. }
    destruct (tau M) as [tm|]; unfold vadd, vsub;
      rewrite !(accum_spec kO kI kadd kmul ksub kopp Rth); rewrite E; unfold vzero; ring.
  Qed.

  Theorem coarse_end_point_is_restricted Fu Ff Ftau :
    (forall m, 1 <= m <= Mf -> (Ftau 1 = None <-> Ftau m = None)) ->
    1 <= Mf -> 1 <= Mc ->
    (forall j, 1 <= j <= Mf -> wf j = Qf Mf j) -> (forall j, 1 <= j <= Mc -> wc j = Qc Mc j) ->
    (forall m, 1 <= m <= Mf -> Rcoll Mc m = if Nat.eqb m Mf then kI else kO) ->
    (forall a b : Vf, (forall y, a y = b y) -> forall x, Rs a x = Rs b x) ->
    let G := restrict Fu Ff Ftau in
    forall x, endp_c (Gu G) (Gf G) (Gtau G) x = Rs (endp_f Fu Ff Ftau) x.
  Proof.
    intros Htau HMf HMc Hwf Hwc Hunit Rs_ext G x.
    assert (Hrow : sumf (fun m => Rcoll Mc m) 1 Mf = kI).
    { rewrite (sumf_ext kO kadd _ (fun j => (if Nat.eqb j Mf then kI else kO) *! kI) 1 Mf).
      - apply (sumf_unit (fun _ => kI)). exact HMf.
      - intros j Hj. rewrite Hunit by lia. ring. }
    rewrite (end_point_is_defect_plus_last Mc dtc Qc wc _ _ _ x Hwc).
    unfold G. rewrite (coarse_defect_is_restricted_fine_defect Fu Ff Ftau Htau Mc ltac:(lia) Hrow x).
    rewrite (sumf_ext kO kadd _ (fun j => (if Nat.eqb j Mf then kI else kO) *! Rs (resid_f Fu Ff Ftau j) x) 1 Mf)
      by (intros j Hj; rewrite Hunit by lia; reflexivity).
    rewrite (sumf_unit (fun j => Rs (resid_f Fu Ff Ftau j) x) Mf HMf).
    unfold Transfer.restrict. cbn [Gu].
    replace (Nat.eqb Mc 0) with false by (symmetry; apply Nat.eqb_neq; lia).
    rewrite rcomb_spec.
    rewrite (sumf_ext kO kadd _ (fun j => (if Nat.eqb j Mf then kI else kO) *! Rs (Fu j) x) 1 Mf)
      by (intros j Hj; rewrite Hunit by lia; reflexivity).
    rewrite (sumf_unit (fun j => Rs (Fu j) x) Mf HMf).
    rewrite (Rs_ext (endp_f Fu Ff Ftau) (vadd kadd (resid_f Fu Ff Ftau Mf) (Fu Mf))).
    - rewrite Rs_add. reflexivity.
    - intros y. unfold vadd. apply (end_point_is_defect_plus_last Mf dtf Qf wf Fu Ff Ftau y Hwf).
  Qed.

  (* prolongation adds the interpolated coarse CORRECTION: if the coarse sweeps did not change the
     coarse values, the fine values are unchanged *)
  Theorem prolong_zero_correction (G : @coarse K Xc) (Fu : nat -> Vf) :
    (forall m, 1 <= m <= Mc -> forall y, Gu G m y = Guold G m y) ->
    forall n x, prolong_u kadd kmul ksub Mc Ps Pcoll G Fu n x = Fu n x.
  Proof.
    intros Hsame n x. unfold prolong_u. destruct (Nat.eqb_spec n 0) as [->|Hn]; [reflexivity|].
    rewrite (accum_spec kO kI kadd kmul ksub kopp Rth).
    rewrite (sumf_ext kO kadd _ (fun _ => kO) 1 Mc).
    - rewrite (sumf_zero kO kI kadd kmul ksub kopp Rth). ring.
    - intros m Hm. unfold vscale. rewrite Ps_sub.
      rewrite (Ps_ext (Gu G m) (Guold G m)) by (apply Hsame; lia). ring.
  Qed.

  (* the correction that IS added, explicitly *)
  Theorem prolong_adds_interpolated_correction (G : @coarse K Xc) (Fu : nat -> Vf) n x :
    1 <= n ->
    prolong_u kadd kmul ksub Mc Ps Pcoll G Fu n x
    = Fu n x +! sumf (fun m => Pcoll n m *! (Ps (Gu G m) x -! Ps (Guold G m) x)) 1 Mc.
  Proof.
    intros Hn. unfold prolong_u. replace (Nat.eqb n 0) with false by (symmetry; apply Nat.eqb_neq; lia).
    rewrite (accum_spec kO kI kadd kmul ksub kopp Rth). f_equal.
    apply sumf_ext. intros m _. unfold vscale. rewrite Ps_sub. reflexivity.
  Qed.

End TransferProofs.

Section TwoLevelCycle.
  Context {K : Type} (kO kI : K) (kadd kmul ksub : K -> K -> K) (kopp : K -> K) (keqb : K -> K -> bool).
  Hypothesis Rth : ring_theory kO kI kadd kmul ksub kopp (@eq K).
  Add Ring Kring3b : Rth.
  Hypothesis keqb_true : forall a b, keqb a b = true -> a = b.
  Context {Xf Xc : Type}.
  Notation Vf := (Xf -> K).
  Notation Vc := (Xc -> K).
  Local Infix "+!" := kadd (at level 50, left associativity).
  Local Infix "*!" := kmul (at level 40, left associativity).
  Local Infix "-!" := ksub (at level 50, left associativity).
  Variable Mf Mc : nat.
  Variable dtf dtc t0 : K.
  Variable nodes_c : nat -> K.
  Variable Qf Qc : nat -> nat -> K.
  Variable feval_c : K -> Vc -> nat -> Vc.
  Variable Rs : Vf -> Vc.
  Variable Ps : Vc -> Vf.
  Variable Rcoll Pcoll : nat -> nat -> K.
  Hypothesis Rs_add : forall a b x, Rs (vadd kadd a b) x = Rs a x +! Rs b x.
  Hypothesis Rs_sub : forall a b x, Rs (vsub ksub a b) x = Rs a x -! Rs b x.
  Hypothesis Rs_zero : forall x, Rs (vzero kO) x = kO.
  Hypothesis Ps_sub : forall a b x, Ps (vsub ksub a b) x = Ps a x -! Ps b x.
  Hypothesis Ps_ext : forall a b, (forall y, a y = b y) -> forall x, Ps a x = Ps b x.
  Notation sumf := (sumf kO kadd).
  Notation restrict := (restrict kO kadd kmul ksub Mf Mc dtf dtc t0 nodes_c Qf Qc 1 feval_c Rs Rcoll).
  Notation resid_f := (residual_vec kO kadd kmul ksub Mf dtf Qf 1).
  Notation resid_c := (residual_vec kO kadd kmul ksub Mc dtc Qc 1).

  (* ---------------------------------------------------------------- two-level cycle *)
  Variable solve_c : nat -> Vc -> K -> Vc -> K -> Vc.
  Variable QIc : nat -> nat -> K.

  (* A complete down-up cycle (restrict; one coarse generic_implicit sweep with the FAS tau; prolong
     the correction) leaves the fine collocation solution unchanged — linear or nonlinear problem. *)
  Theorem two_level_cycle_fixed_point Fu Ff Ftau :
    (forall m, 1 <= m <= Mf -> (Ftau 1 = None <-> Ftau m = None)) ->
    (forall m, 1 <= m <= Mf -> forall y, resid_f Fu Ff Ftau m y = kO) ->
    (forall a b : Vf, (forall y, a y = b y) -> forall x, Rs a x = Rs b x) ->
    (forall n, 1 <= n <= Mc -> sumf (fun m => Rcoll n m) 1 Mf = kI) ->
    solver_left_inverse kmul ksub solve_c feval_c 0 -> feval_ext feval_c -> lower_triangular kO QIc ->
    (forall m, 1 <= m <= Mc -> dtc *! QIc m m <> kO \/ keqb (dtc *! QIc m m) kO = true) ->
    let G := restrict Fu Ff Ftau in
    let r := gi_update kO kadd kmul ksub keqb Mc dtc t0 nodes_c Qc solve_c feval_c QIc (Gu G) (Gf G) (Gtau G) in
    let G' := {| Gu := fst r; Gf := snd r; Gtau := Gtau G; Guold := Guold G; Gfold := Gfold G |} in
    forall n x, prolong_u kadd kmul ksub Mc Ps Pcoll G' Fu n x = Fu n x.
  Proof.
    intros Htau Hzero Rs_ext Hrow Hli Hext Htri Hdec G r G' n x.
    apply (prolong_zero_correction kO kI kadd kmul ksub kopp Rth Mc Ps Pcoll Ps_sub Ps_ext). intros m Hm y. cbn [Gu Guold G'].
    (* the coarse state after restriction satisfies its collocation problem ... *)
    assert (Hcoll : collocation1 kO kadd kmul Mc dtc Qc (Gu G) (Gf G) (Gtau G)).
    { intros k Hk z.
      apply (proj1 (residual_zero_iff_collocation kO kI kadd kmul ksub kopp Rth Mc dtc Qc (Gu G) (Gf G) (Gtau G) k z)).
      apply (restricted_solution_has_zero_coarse_defect kO kI kadd kmul ksub kopp Rth Mf Mc dtf dtc t0 nodes_c Qf Qc feval_c Rs Rcoll
               Rs_add Rs_sub Rs_zero 1 Fu Ff Ftau Htau Hzero Rs_ext k Hk (Hrow k Hk)). }
    (* ... and is consistent by construction, so the sweep reproduces it *)
    assert (Hcons : consistent kadd kmul Mc dtc t0 nodes_c feval_c (Gu G) (Gf G)).
    { intros k Hk p z. unfold G, Transfer.restrict. cbn [Gu Gf].
      replace (Nat.eqb k 0) with false by (symmetry; apply Nat.eqb_neq; lia). reflexivity. }
    unfold r.
    rewrite (gi_collocation_is_fixed_point kO kI kadd kmul ksub kopp keqb Rth keqb_true Mc dtc t0 nodes_c Qc
               solve_c feval_c QIc (Gu G) (Gf G) (Gtau G) Hli Hext Htri Hcons Hdec Hcoll m Hm y).
    unfold G, Transfer.restrict. cbn [Gu Guold]. reflexivity.
  Qed.
End TwoLevelCycle.
